//! Independent decoder of the PINNED on-disk layout (DESIGN.md Appendix B).  Offsets and sizes
//! are literals; nothing is taken from jammdb's types.  It decodes; it does not judge: every
//! structural predicate (C05) is a TLA+ definition evaluated by TLC on the decoded records.

use serde_json::{json, Value};

use crate::profiles::Profile;

fn u64_at(b: &[u8], off: usize) -> Option<u64> {
    b.get(off..off + 8).map(|s| u64::from_le_bytes(s.try_into().unwrap()))
}
fn u32_at(b: &[u8], off: usize) -> Option<u32> {
    b.get(off..off + 4).map(|s| u32::from_le_bytes(s.try_into().unwrap()))
}

pub const T_BRANCH: u8 = 1;
pub const T_LEAF: u8 = 2;
pub const T_META: u8 = 3;
pub const T_FREELIST: u8 = 4;

/// FNV-1a 64 over the big-endian bytes of the nine header fields
pub fn meta_hash(meta_page: u32, magic: u32, version: u32, pagesize: u64, root: u64, next_int: u64,
                 num_pages: u64, fl: u64, txid: u64) -> u64 {
    let mut h: u64 = 0xcbf29ce484222325;
    let mut feed = |bytes: &[u8]| {
        for b in bytes {
            h ^= *b as u64;
            h = h.wrapping_mul(0x100000001b3);
        }
    };
    feed(&meta_page.to_be_bytes());
    feed(&magic.to_be_bytes());
    feed(&version.to_be_bytes());
    feed(&pagesize.to_be_bytes());
    feed(&root.to_be_bytes());
    feed(&next_int.to_be_bytes());
    feed(&num_pages.to_be_bytes());
    feed(&fl.to_be_bytes());
    feed(&txid.to_be_bytes());
    h
}

#[derive(Clone, Debug, PartialEq)]
pub struct MetaRec {
    pub page_id: u64,
    pub ptype: u8,
    pub meta_page: u32,
    pub magic: u32,
    pub version: u32,
    pub pagesize: u64,
    pub root: u64,
    pub next_int: u64,
    pub num_pages: u64,
    pub fl: u64,
    pub txid: u64,
    pub hash_ok: bool,
    /// valid under the <= 0.10 header format (SHA3-256 over the same bytes, 32 bytes at offset 96)
    pub legacy_ok: bool,
}

/// decode a header page image (at least 104 bytes)
pub fn decode_meta(b: &[u8]) -> Option<MetaRec> {
    let page_id = u64_at(b, 0)?;
    let ptype = *b.get(8)?;
    let meta_page = u32_at(b, 32)?;
    let magic = u32_at(b, 36)?;
    let version = u32_at(b, 40)?;
    let pagesize = u64_at(b, 48)?;
    let root = u64_at(b, 56)?;
    let next_int = u64_at(b, 64)?;
    let num_pages = u64_at(b, 72)?;
    let fl = u64_at(b, 80)?;
    let txid = u64_at(b, 88)?;
    let hash = u64_at(b, 96)?;
    let hash_ok = hash == meta_hash(meta_page, magic, version, pagesize, root, next_int, num_pages, fl, txid);
    let legacy_ok = match b.get(96..128) {
        Some(h) => {
            use sha3::{Digest, Sha3_256};
            let mut hasher = Sha3_256::new();
            hasher.update(meta_page.to_be_bytes());
            hasher.update(magic.to_be_bytes());
            hasher.update(version.to_be_bytes());
            hasher.update(pagesize.to_be_bytes());
            hasher.update(root.to_be_bytes());
            hasher.update(next_int.to_be_bytes());
            hasher.update(num_pages.to_be_bytes());
            hasher.update(fl.to_be_bytes());
            hasher.update(txid.to_be_bytes());
            hasher.finalize()[..] == h[..]
        }
        None => false,
    };
    Some(MetaRec { page_id, ptype, meta_page, magic, version, pagesize, root, next_int, num_pages, fl, txid, hash_ok,
                   legacy_ok })
}

impl MetaRec {
    /// what the pinned code accepts as a usable header
    pub fn valid(&self) -> bool {
        (self.hash_ok || self.legacy_ok) && self.ptype == T_META
    }
    pub fn json(&self) -> Value {
        json!({"pid": self.page_id, "ptype": self.ptype, "slot": self.meta_page, "magic_ok": self.magic == 0x00AB_CDEF,
               "version": self.version, "pagesize": self.pagesize, "root": self.root, "ctr": self.next_int,
               "np": self.num_pages, "fl": self.fl, "txid": self.txid, "hash_ok": self.hash_ok || self.legacy_ok,
               "legacy": self.legacy_ok && !self.hash_ok})
    }
}

/// Decodes the image of one page run (the bytes written for it; `avail` = bytes of the run that
/// exist = (overflow+1)*pagesize when reading from a file).  Returns the abstract page.
///   branch: elems [[key id, child page, end offset]]
///   leaf:   elems [[key id, kind 0 pair / 1 bucket / other, value id | bucket root, bucket ctr, end offset]]
///   freelist: ids
pub fn decode_page(b: &[u8], prof: &Profile) -> Value {
    if b.len() < 32 {
        return json!({"bad": "short", "id": 0, "ptype": 0, "count": 0, "ov": 0, "elems": [], "used": 0, "len": b.len()});
    }
    let id = u64_at(b, 0).unwrap_or(0);
    let ptype = b[8];
    let count = u64_at(b, 16).unwrap_or(0);
    let overflow = u64_at(b, 24).unwrap_or(0);
    let mut bad = String::new();
    let mut elems: Vec<Value> = Vec::new();
    let mut used: u64 = 32;
    match ptype {
        T_BRANCH => {
            for i in 0..count {
                let e = 32 + (i as usize) * 24;
                let (page, ksz, pos) = match (u64_at(b, e), u64_at(b, e + 8), u64_at(b, e + 16)) {
                    (Some(a), Some(k), Some(p)) => (a, k, p),
                    _ => {
                        bad = format!("branch element {} outside the image", i);
                        break;
                    }
                };
                let ks = e as u64 + pos;
                let end = ks + ksz;
                let kid = match b.get(ks as usize..end as usize) {
                    Some(k) => prof.key_id(k),
                    None => -2,
                };
                used = used.max(end);
                elems.push(json!([kid, page, end]));
            }
        }
        T_LEAF => {
            for i in 0..count {
                let e = 32 + (i as usize) * 32;
                let (kind, pos, ksz, vsz) = match (b.get(e), u64_at(b, e + 8), u64_at(b, e + 16), u64_at(b, e + 24)) {
                    (Some(t), Some(p), Some(k), Some(v)) => (*t, p, k, v),
                    _ => {
                        bad = format!("leaf element {} outside the image", i);
                        break;
                    }
                };
                let ks = e as u64 + pos;
                let vs = ks + ksz;
                let end = vs + vsz;
                let kid = match b.get(ks as usize..vs as usize) {
                    Some(k) => prof.key_id(k),
                    None => -2,
                };
                used = used.max(end);
                match b.get(vs as usize..end as usize) {
                    Some(v) => {
                        if kind == 1 {
                            if vsz == 16 {
                                let root = u64_at(v, 0).unwrap();
                                let ctr = u64_at(v, 8).unwrap();
                                elems.push(json!([kid, 1, root, ctr, end]));
                            } else {
                                elems.push(json!([kid, 1, -3, vsz, end]));
                            }
                        } else {
                            elems.push(json!([kid, kind, prof.val_id(v), 0, end]));
                        }
                    }
                    None => elems.push(json!([kid, kind, -2, 0, end])),
                }
            }
        }
        T_FREELIST => {
            let mut ids: Vec<u64> = Vec::new();
            for i in 0..count {
                match u64_at(b, 32 + (i as usize) * 8) {
                    Some(x) => ids.push(x),
                    None => {
                        bad = format!("freelist entry {} outside the image", i);
                        break;
                    }
                }
            }
            used = 32 + 8 * count;
            return json!({"id": id, "ptype": ptype, "count": count, "ov": overflow, "ids": ids, "used": used,
                          "len": b.len(), "bad": bad});
        }
        _ => {}
    }
    json!({"id": id, "ptype": ptype, "count": count, "ov": overflow, "elems": elems, "used": used,
           "len": b.len(), "bad": bad})
}

/// page header only (long runs that do not decode elements)
pub fn decode_page_header(b: &[u8]) -> Value {
    json!({"id": u64_at(b, 0).unwrap_or(0), "ptype": b.get(8).cloned().unwrap_or(0), "count": u64_at(b, 16).unwrap_or(0),
           "ov": u64_at(b, 24).unwrap_or(0), "used": 0, "len": b.len(), "bad": ""})
}

/// A whole file as the pinned layout describes it, starting from the header the pinned code
/// would choose.  `pages`: decoded runs reachable from that header (tree, nested buckets, free
/// list page); traversal is only used to select what to decode.
pub struct FileView {
    pub metas: [Option<MetaRec>; 2],
    pub chosen: Option<usize>,
    pub pages: Vec<(u64, Value)>,
}

pub fn choose(metas: &[Option<MetaRec>; 2]) -> Option<usize> {
    let v0 = metas[0].as_ref().map(|m| m.valid()).unwrap_or(false);
    let v1 = metas[1].as_ref().map(|m| m.valid()).unwrap_or(false);
    match (v0, v1) {
        (true, true) => {
            if metas[0].as_ref().unwrap().txid > metas[1].as_ref().unwrap().txid {
                Some(0)
            } else {
                Some(1)
            }
        }
        (true, false) => Some(0),
        (false, true) => Some(1),
        _ => None,
    }
}

pub fn parse_file(data: &[u8], pagesize: u64, prof: &Profile) -> FileView {
    let ps = pagesize as usize;
    let m0 = data.get(0..ps).and_then(decode_meta);
    let m1 = data.get(ps..2 * ps).and_then(decode_meta);
    let metas = [m0, m1];
    let chosen = choose(&metas);
    let mut pages = Vec::new();
    if let Some(c) = chosen {
        let m = metas[c].clone().unwrap();
        let mut stack = vec![m.fl, m.root];
        let mut seen = std::collections::HashSet::new();
        while let Some(p) = stack.pop() {
            if !seen.insert(p) || pages.len() > 200_000 {
                continue;
            }
            let start = (p as usize).saturating_mul(ps);
            if start + 32 > data.len() {
                pages.push((p, json!({"bad": "beyond end of file", "id": p})));
                continue;
            }
            let ov = u64_at(data, start + 24).unwrap_or(0);
            let end = (start + ((ov as usize).saturating_add(1)).saturating_mul(ps)).min(data.len());
            let d = decode_page(&data[start..end], prof);
            if d["ptype"] == T_BRANCH {
                for e in d["elems"].as_array().unwrap() {
                    stack.push(e[1].as_u64().unwrap_or(0));
                }
            } else if d["ptype"] == T_LEAF {
                for e in d["elems"].as_array().unwrap() {
                    if e[1] == 1 {
                        if let Some(r) = e[2].as_u64() {
                            stack.push(r);
                        }
                    }
                }
            }
            pages.push((p, d));
        }
    }
    FileView { metas, chosen, pages }
}
