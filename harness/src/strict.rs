//! C06 probe: "a call that returns an error changes nothing", for commit itself.
//!
//! A commit can be refused by the library's own consistency check (strict mode).  To make that
//! check fail without touching the code, a page of a bucket that the transaction never reads is
//! damaged in a copy of a committed file (its page-type byte).  The file is then opened in strict
//! mode and a write transaction on ANOTHER bucket is committed.  If that commit returns an error,
//! the committed state must be what it was: both header pages byte-identical, the next
//! transaction on the same handle and a re-opened handle see the old content of the bucket.
//! (If the commit succeeds there is nothing to check.)

use std::panic::{catch_unwind, AssertUnwindSafe};

use jammdb::{Data, OpenOptions};
use serde_json::{json, Value};

use crate::{exec::LAST_PANIC, parse, profiles::Profile, Args};

fn headers(path: &std::path::Path, ps: usize) -> Vec<u8> {
    let d = std::fs::read(path).unwrap_or_default();
    d[..(2 * ps).min(d.len())].to_vec()
}

/// jvh strict-probe --out O [--pagesize 1024] [--rounds N]
pub fn strict_probe(a: &Args) -> i32 {
    let ps = a.n("pagesize", 1024) as u64;
    let prof = Profile::new("two", 24, 4);
    let dir = crate::scratch_dir();
    let base = dir.join(format!("strict-base-{}.db", std::process::id()));
    let path = dir.join(format!("strict-{}.db", std::process::id()));
    let mut problems: Vec<Value> = Vec::new();
    let mut tried = 0;
    let mut refused = 0;
    let _ = std::fs::remove_file(&base);
    // the committed state: bucket 0 ("victim", several leaves) and bucket 1 ("work")
    {
        let db = OpenOptions::new().pagesize(ps).num_pages(64).open(&base).expect("create");
        let tx = db.tx(true).expect("tx");
        {
            let v = tx.create_bucket(prof.key(0)).expect("bucket");
            for k in 2..20 {
                v.put(prof.key(k), prof.val(k % 4)).expect("put");
            }
            let w = tx.create_bucket(prof.key(1)).expect("bucket");
            w.put(prof.key(2), prof.val(1)).expect("put");
        }
        tx.commit().expect("commit");
    }
    let data = std::fs::read(&base).expect("read");
    let fv = parse::parse_file(&data, ps, &prof);
    // pages of the victim bucket: everything reachable from its root
    let root_meta = fv.metas[fv.chosen.expect("header")].clone().unwrap();
    let pages: std::collections::BTreeMap<u64, &Value> = fv.pages.iter().map(|(i, d)| (*i, d)).collect();
    let mut victim_root = 0u64;
    if let Some(rp) = pages.get(&root_meta.root) {
        for e in rp["elems"].as_array().cloned().unwrap_or_default() {
            if e[1] == 1 && e[0] == 0 {
                victim_root = e[2].as_u64().unwrap_or(0);
            }
        }
    }
    let mut targets: Vec<u64> = Vec::new();
    let mut stack = vec![victim_root];
    while let Some(p) = stack.pop() {
        if p < 2 {
            continue;
        }
        targets.push(p);
        if let Some(d) = pages.get(&p) {
            if d["ptype"] == parse::T_BRANCH {
                for e in d["elems"].as_array().cloned().unwrap_or_default() {
                    stack.push(e[1].as_u64().unwrap_or(0));
                }
            }
        }
    }
    for (ti, target) in targets.iter().enumerate() {
        if ti as i64 >= a.n("rounds", 6) {
            break;
        }
        crate::tick();
        let mut d = data.clone();
        d[(*target * ps) as usize + 8] = 9; // not a page type
        std::fs::write(&path, &d).expect("write copy");
        let before = headers(&path, ps as usize);
        tried += 1;
        let r = catch_unwind(AssertUnwindSafe(|| -> Result<Option<String>, String> {
            let db = OpenOptions::new().pagesize(ps).strict_mode(true).open(&path).map_err(|e| format!("open: {}", e))?;
            let res = {
                let tx = db.tx(true).map_err(|e| format!("tx: {}", e))?;
                {
                    let w = tx.get_bucket(prof.key(1)).map_err(|e| format!("get_bucket: {}", e))?;
                    w.put(prof.key(3), prof.val(2)).map_err(|e| format!("put: {}", e))?;
                }
                tx.commit()
            };
            match res {
                Ok(()) => Ok(None),
                Err(e) => {
                    // the same handle, a new transaction: the old content
                    let tx = db.tx(false).map_err(|e| format!("tx after the refused commit: {}", e))?;
                    let w = tx.get_bucket(prof.key(1)).map_err(|e| format!("get_bucket after the refused commit: {}", e))?;
                    let seen = matches!(w.get(prof.key(3)), Some(Data::KeyValue(_)));
                    Ok(Some(format!("{}|{}", e, seen)))
                }
            }
        }));
        match r {
            Ok(Ok(None)) => {}
            Ok(Ok(Some(info))) => {
                refused += 1;
                let (err, seen) = info.rsplit_once('|').unwrap();
                if seen == "true" {
                    problems.push(json!({"what":"commit returned an error and its change is visible to the next transaction",
                                         "page": target, "error": err}));
                }
                if headers(&path, ps as usize) != before {
                    problems.push(json!({"what":"commit returned an error and a header page changed", "page": target, "error": err}));
                }
                // a new handle (not strict): the old content
                let r2 = catch_unwind(AssertUnwindSafe(|| -> Result<bool, String> {
                    let db = OpenOptions::new().pagesize(ps).open(&path).map_err(|e| format!("reopen: {}", e))?;
                    let tx = db.tx(false).map_err(|e| format!("tx: {}", e))?;
                    let w = tx.get_bucket(prof.key(1)).map_err(|e| format!("get_bucket: {}", e))?;
                    Ok(matches!(w.get(prof.key(3)), Some(Data::KeyValue(_))))
                }));
                match r2 {
                    Ok(Ok(true)) => problems.push(json!({"what":"commit returned an error and its change is there after reopening",
                                                         "page": target, "error": err})),
                    Ok(Ok(false)) => {}
                    Ok(Err(e)) => problems.push(json!({"what":"reopen after the refused commit failed", "page": target, "error": e})),
                    Err(_) => problems.push(json!({"what":"reopen after the refused commit panicked", "page": target,
                                                   "error": LAST_PANIC.with(|p| p.borrow().clone())})),
                }
            }
            // opening / beginning on the damaged copy may itself be refused: nothing was committed, no claim
            Ok(Err(_)) => {}
            Err(_) => {}
        }
    }
    let _ = std::fs::remove_file(&base);
    let _ = std::fs::remove_file(&path);
    std::fs::write(a.s("out", "/dev/stdout"),
                   json!({"tried": tried, "refused_commits": refused, "problems": problems}).to_string()).expect("out");
    0
}
