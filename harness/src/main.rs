//! jvh -- the conformance harness binding the TLA+ specifications to jammdb.
//!
//!   jvh replay  : step TLC-generated behaviours (with the results TLC computed) through
//!                 the real code and compare every result                (spec -> impl)
//!   jvh trace   : drive the real code with seeded random histories and record one event
//!                 per specification action for TLC trace validation     (impl -> spec)

mod btree;
mod crash;
mod exec;
mod fault;
mod golden;
mod iohook;
mod parse;
mod procs;
mod profiles;
mod rec;
mod sched;
mod strict;
mod workload;

use std::{
    collections::{BTreeSet, HashMap},
    fs::File,
    io::{BufRead, BufReader, BufWriter, Write},
    path::PathBuf,
};

use exec::{Opts, World};
use profiles::Profile;
use rand::{rngs::StdRng, Rng, SeedableRng};
use serde_json::{json, Value};

pub struct Args {
    m: HashMap<String, String>,
}
impl Args {
    fn parse(v: &[String]) -> Args {
        let mut m = HashMap::new();
        let mut i = 0;
        while i < v.len() {
            if let Some(k) = v[i].strip_prefix("--") {
                if i + 1 < v.len() && !v[i + 1].starts_with("--") {
                    m.insert(k.to_string(), v[i + 1].clone());
                    i += 2;
                } else {
                    m.insert(k.to_string(), "1".to_string());
                    i += 1;
                }
            } else {
                i += 1;
            }
        }
        Args { m }
    }
    pub fn s(&self, k: &str, d: &str) -> String {
        self.m.get(k).cloned().unwrap_or_else(|| d.to_string())
    }
    pub fn n(&self, k: &str, d: i64) -> i64 {
        self.m.get(k).map(|x| x.parse().expect("integer argument")).unwrap_or(d)
    }
    pub fn has(&self, k: &str) -> bool {
        self.m.contains_key(k)
    }
}

pub fn scratch_dir() -> PathBuf {
    let base = if std::path::Path::new("/dev/shm").is_dir() {
        PathBuf::from("/dev/shm")
    } else {
        std::env::temp_dir()
    };
    let d = base.join(format!("jvh.{}", std::process::id()));
    std::fs::create_dir_all(&d).unwrap();
    d
}

pub fn opts_from(a: &Args, prof: &Profile) -> Opts {
    Opts {
        pagesize: a.n("pagesize", prof.pagesize as i64) as u64,
        num_pages: a.n("num-pages", 32) as usize,
        strict: a.n("strict", 0) != 0,
        populate: a.n("populate", 0) != 0,
    }
}

pub static PROGRESS: std::sync::atomic::AtomicU64 = std::sync::atomic::AtomicU64::new(0);

pub fn watchdog_kick() {
    tick();
}

pub fn tick() {
    PROGRESS.fetch_add(1, std::sync::atomic::Ordering::Relaxed);
}

/// A step of the code under test that does not return is an observation (exit code 86),
/// not something the driver should wait for.
fn start_watchdog(secs: u64) {
    std::thread::spawn(move || {
        let mut last = PROGRESS.load(std::sync::atomic::Ordering::Relaxed);
        let mut idle = 0;
        loop {
            std::thread::sleep(std::time::Duration::from_secs(1));
            let now = PROGRESS.load(std::sync::atomic::Ordering::Relaxed);
            if now == last {
                idle += 1;
                if idle >= secs {
                    eprintln!("HANG: no progress for {} s", secs);
                    unsafe { libc::_exit(86) };
                }
            } else {
                idle = 0;
                last = now;
            }
        }
    });
}

fn main() {
    let argv: Vec<String> = std::env::args().collect();
    if argv.len() < 2 {
        eprintln!("usage: jvh <replay|trace> ...");
        std::process::exit(2);
    }
    let a = Args::parse(&argv[2..]);
    exec::install_quiet_panic_hook();
    start_watchdog(a.n("watchdog", 30) as u64);
    let code = match argv[1].as_str() {
        "replay" => replay(&a),
        "trace" => trace(&a),
        "crash-run" => crash::crash_run(&a),
        "damage-run" => crash::damage_run(&a),
        "fault-run" => fault::fault_run(&a),
        "workload" => workload::workload(&a),
        "golden" => golden::golden(&a),
        "btree-run" => btree::btree_run(&a),
        "strict-probe" => strict::strict_probe(&a),
        "procs-worker" => procs::worker(&a),
        "procs-run" => procs::run(&a),
        "sched-run" => sched::sched_run(&a),
        _ => {
            eprintln!("unknown subcommand");
            2
        }
    };
    std::process::exit(code);
}

/// got must be one of the results the specification allows
fn allowed(got: &Value, exp: &Value) -> bool {
    exp.as_array().map(|a| a.iter().any(|e| e == got)).unwrap_or(false)
}

/// Replays histories (one JSON object per line: {id, nk, nv, steps}).  Writes one line per
/// history that deviates; the last line is a summary.  The id of the history being run is
/// kept in <out>.progress so that the driver can attribute an abort of this process.
fn replay(a: &Args) -> i32 {
    let inp = a.s("in", "");
    let out = a.s("out", "/dev/stdout");
    let skip = a.n("skip", 0);
    let pname = a.s("profile", "flat");
    let dir = scratch_dir();
    let mut w = BufWriter::new(File::create(&out).unwrap());
    let progress = format!("{}.progress", out);
    let rd = BufReader::new(File::open(&inp).unwrap());
    let mut done = 0i64;
    let mut bad = 0i64;
    let mut steps_run = 0i64;
    let mut profs: HashMap<(usize, usize), Profile> = HashMap::new();
    // optionally record the run (public calls, hook points, I/O) for TLC trace validation
    let tout = a.s("trace-out", "");
    let tracing = !tout.is_empty();
    if tracing {
        rec::install_hook_recorder();
    }
    let mut started = false;
    for (idx, line) in rd.lines().enumerate() {
        let line = line.unwrap();
        if (idx as i64) < skip || line.trim().is_empty() {
            continue;
        }
        let h: Value = serde_json::from_str(&line).expect("history json");
        let nk = h["nk"].as_i64().unwrap_or(16) as usize;
        let nv = h["nv"].as_i64().unwrap_or(4) as usize;
        let prof = profs.entry((nk, nv)).or_insert_with(|| Profile::new(&pname, nk, nv)).clone();
        std::fs::write(&progress, format!("{}", idx)).ok();
        let path = dir.join(format!("r{}.db", idx % 4));
        let _ = std::fs::remove_file(&path);
        let opts = opts_from(a, &prof);
        if tracing {
            if !started {
                rec::start(&tout, Some(prof.clone()), opts.pagesize, true);
                rec::emit(json!({"ev":"hdr","profile":pname,"nkeys":nk,"nvals":nv}));
                started = true;
            }
            iohook::set_target(&path);
            rec::emit(json!({"ev":"reset","h":idx,"pagesize":opts.pagesize,"np0":opts.num_pages}));
        }
        let ps = opts.pagesize;
        let mut world = World::new(prof.clone(), path.clone(), opts);
        let r = world.open();
        if tracing {
            rec::emit(json!({"ev":"opened","h":idx,"res":r}));
        }
        let mut dev: Option<Value> = None;
        if r != json!(["ok"]) {
            dev = Some(json!({"step": -1, "got": r, "exp": [["ok"]], "what": "open"}));
        }
        if dev.is_none() {
            for (i, st) in h["steps"].as_array().unwrap().iter().enumerate() {
                steps_run += 1;
                tick();
                let act = st["a"].as_str().unwrap_or("");
                let t = st["t"].as_i64().unwrap_or(0);
                let got = match act {
                    "begin" => world.begin(t, st["w"].as_bool().unwrap_or(false)),
                    "op" => world.op(t, st),
                    "commit" => world.commit(t),
                    "drop" => world.drop_tx(t),
                    "reopen" => {
                        if tracing {
                            rec::emit(json!({"ev":"closing"}));
                        }
                        let c = world.close();
                        if c != json!(["ok"]) {
                            c
                        } else {
                            world.open()
                        }
                    }
                    "check" => world.check(),
                    _ => json!(["unsupported-step"]),
                };
                if tracing {
                    let mut e = st.clone();
                    e["ev"] = json!(act);
                    e["res"] = got.clone();
                    e.as_object_mut().unwrap().remove("exp");
                    rec::emit(e);
                }
                if st.get("exp_any").is_some() {
                    continue;
                }
                let exp = if st.get("exp").is_some() { st["exp"].clone() } else { json!([["ok"]]) };
                if !allowed(&got, &exp) {
                    let pm = exec::LAST_PANIC.with(|p| p.borrow().clone());
                    dev = Some(json!({"step": i, "got": got, "exp": exp, "what": st, "panic": pm}));
                    break;
                }
            }
        }
        if tracing {
            rec::emit(json!({"ev":"closing"}));
            world.close();
            rec::emit(json!({"ev":"closed"}));
            emit_parse(&world.path, ps, &prof);
        }
        drop(world);
        done += 1;
        if let Some(d) = dev {
            bad += 1;
            writeln!(w, "{}", json!({"line": idx, "id": h["id"], "dev": d})).unwrap();
        }
    }
    writeln!(w, "{}", json!({"summary": true, "histories": done, "deviations": bad, "steps": steps_run}))
        .unwrap();
    w.flush().unwrap();
    if tracing {
        rec::finish();
        iohook::deactivate();
    }
    let _ = std::fs::remove_dir_all(&dir);
    let _ = std::fs::remove_file(&progress);
    0
}

// ------------------------------------------------------------------------------------------
// random driver (impl -> spec)
// ------------------------------------------------------------------------------------------

/// thin handle on the global recorder (rec.rs)
pub struct Rec {}
impl Rec {
    fn ev(&mut self, v: Value) {
        rec::emit(v);
    }
}

/// FNV-1a over the file bytes (C06: nothing but a commit may change them)
pub fn file_hash(path: &std::path::Path) -> (String, u64) {
    let data = std::fs::read(path).unwrap_or_default();
    let mut h: u64 = 0xcbf29ce484222325;
    for b in &data {
        h ^= *b as u64;
        h = h.wrapping_mul(0x100000001b3);
    }
    (format!("{:016x}", h), data.len() as u64)
}

fn op_json(t: i64, c: &str, p: &[i64], k: i64, v: i64, lk: &str, lo: i64, hk: &str, hi: i64) -> Value {
    json!({"ev":"op","a":"op","t":t,"c":c,"p":p,"k":k,"v":v,"lk":lk,"lo":lo,"hk":hk,"hi":hi})
}

pub struct Driver<'a> {
    pub rng: StdRng,
    pub world: World,
    pub rec: &'a mut Rec,
    pub nk: i64,
    pub nv: i64,
    pub maxdepth: usize,
    pub buckets: BTreeSet<Vec<i64>>, // shadow knowledge used only to bias choices
    pub writer: Option<i64>,
    pub readers: Vec<i64>,
    pub next_t: i64,
    pub readback: bool,
    /// true: the file is pre-sized, readers may stay open across writer commits;
    /// false: the file starts at 4 pages and grows, so (single thread!) no reader may be
    /// open while a writer commits -- growth would wait for the reader forever (documented)
    pub presized: bool,
    /// number of successful commits so far; with `states` a dump of the committed content is
    /// recorded after every commit (the reference for crash / fault outcomes)
    pub commits: i64,
    pub states: bool,
    pub max_readers: usize,
    /// percent chance (per step without a writer, >= 2 readers open) that the oldest reader is closed
    pub reader_churn: i64,
    /// number of readers of the deterministic prefix (0: none)
    pub ladder_n: usize,
    /// percent of the steps on an open read-only transaction that attempt a mutator
    pub ro_mut_pct: i64,
    pub hashes: bool,
    pub p_rollback: u32,
}

impl<'a> Driver<'a> {
    fn hash_event(&mut self, at: &str) {
        if self.hashes {
            let (h, len) = file_hash(&self.world.path);
            self.rec.ev(json!({"ev":"filehash","h":h,"len":len,"at":at}));
        }
    }

    fn state_event(&mut self) {
        if self.states {
            let d = self.world.dump();
            self.rec.ev(json!({"ev":"state","k":self.commits,"dump":d}));
        }
    }

    fn do_op(&mut self, mut o: Value) -> Value {
        tick();
        if self.rng.gen_bool(0.25) {
            o["n"] = json!(1); // reach the bucket through the buckets() iterators
        }
        let t = o["t"].as_i64().unwrap();
        let res = self.world.op(t, &o);
        // bias bookkeeping from observed results (not an oracle)
        let c = o["c"].as_str().unwrap().to_string();
        if res == json!(["ok"]) && Some(t) == self.writer {
            let mut q: Vec<i64> = o["p"].as_array().unwrap().iter().map(|x| x.as_i64().unwrap()).collect();
            q.push(o["k"].as_i64().unwrap());
            if c == "mkb" || c == "gocb" {
                self.buckets.insert(q);
            } else if c == "delb" {
                self.buckets.retain(|b| !(b.len() >= q.len() && b[..q.len()] == q[..]));
            }
        }
        o["res"] = res.clone();
        self.rec.ev(o);
        res
    }

    fn rand_bounds(&mut self) -> (String, i64, String, i64) {
        let kinds = ["I", "E", "U"];
        let lk = kinds[self.rng.gen_range(0..3)].to_string();
        let hk = kinds[self.rng.gen_range(0..3)].to_string();
        (lk, self.rng.gen_range(0..self.nk), hk, self.rng.gen_range(0..self.nk))
    }

    fn pick_path(&mut self, allow_root: bool) -> Vec<i64> {
        let mut cands: Vec<Vec<i64>> = self.buckets.iter().cloned().collect();
        if allow_root || cands.is_empty() {
            cands.push(vec![]);
        }
        if self.rng.gen_bool(0.04) {
            // occasionally a path that probably does not exist
            return vec![self.rng.gen_range(0..self.nk), self.rng.gen_range(0..self.nk)];
        }
        cands[self.rng.gen_range(0..cands.len())].clone()
    }

    /// the full read API on one bucket (C07 / C08)
    fn read_all(&mut self, t: i64, p: &[i64], heavy: bool) {
        if p.is_empty() {
            self.do_op(op_json(t, "buckets", p, 0, 0, "U", 0, "U", 0));
            return;
        }
        self.do_op(op_json(t, "scan", p, 0, 0, "U", 0, "U", 0));
        self.do_op(op_json(t, "nextint", p, 0, 0, "U", 0, "U", 0));
        let nseek = if heavy { self.nk } else { 2 };
        for i in 0..nseek {
            let k = if heavy { i } else { self.rng.gen_range(0..self.nk) };
            self.do_op(op_json(t, "seek", p, k, 0, "U", 0, "U", 0));
            if heavy {
                self.do_op(op_json(t, "get", p, k, 0, "U", 0, "U", 0));
                let lo = self.rng.gen_range(0..self.nk);
                let hi = self.rng.gen_range(0..3);
                self.do_op(op_json(t, "reseek", p, k, 0, "U", lo, "U", hi));
            }
        }
        let nrange = if heavy { 6 } else { 2 };
        for _ in 0..nrange {
            let (lk, lo, hk, hi) = self.rand_bounds();
            let c = ["range", "range", "range", "rangeb", "rangekv"][self.rng.gen_range(0..5)];
            self.do_op(op_json(t, c, p, 0, 0, &lk, lo, &hk, hi));
        }
        if heavy {
            self.do_op(op_json(t, "buckets", p, 0, 0, "U", 0, "U", 0));
            self.do_op(op_json(t, "kvpairs", p, 0, 0, "U", 0, "U", 0));
            self.do_op(op_json(t, "again", p, 0, 0, "U", 0, "U", 0));
        }
    }

    /// full projection of everything visible to tx t, driven by what the scans return
    fn project(&mut self, t: i64) {
        let mut stack: Vec<Vec<i64>> = vec![vec![]];
        while let Some(p) = stack.pop() {
            let c = if p.is_empty() { "buckets" } else { "scan" };
            let res = self.do_op(op_json(t, c, &p, 0, 0, "U", 0, "U", 0));
            if !p.is_empty() {
                self.do_op(op_json(t, "nextint", &p, 0, 0, "U", 0, "U", 0));
            }
            if res[0] == "list" && p.len() < 6 {
                for e in res[1].as_array().unwrap() {
                    if e[1] == "b" {
                        let mut q = p.clone();
                        q.push(e[0].as_i64().unwrap());
                        stack.push(q);
                    }
                }
            }
        }
    }

    pub fn begin(&mut self, w: bool) -> Option<i64> {
        let t = self.next_t;
        self.next_t += 1;
        let res = self.world.begin(t, w);
        self.rec.ev(json!({"ev":"begin","t":t,"w":w,"res":res}));
        if res == json!(["ok"]) {
            if w {
                self.writer = Some(t)
            } else {
                self.readers.push(t)
            }
            Some(t)
        } else {
            None
        }
    }

    pub fn end(&mut self, t: i64, commit: bool) -> Value {
        let is_writer_commit = commit && Some(t) == self.writer;
        if !is_writer_commit {
            self.hash_event("before-end");
        }
        let res = if commit { self.world.commit(t) } else { self.world.drop_tx(t) };
        self.rec.ev(json!({"ev": if commit {"commit"} else {"drop"}, "t": t, "res": res}));
        self.hash_event(if is_writer_commit { "after-commit" } else { "after-end" });
        if Some(t) == self.writer {
            self.writer = None;
        }
        self.readers.retain(|x| *x != t);
        res
    }

    fn mutate(&mut self, t: i64) {
        let r = self.rng.gen_range(0..100);
        let k = self.rng.gen_range(0..self.nk);
        let v = self.rng.gen_range(0..self.nv);
        let (c, root_ok) = if r < 2 {
            ("stale", false)
        } else if r < 45 {
            ("put", false)
        } else if r < 65 {
            ("del", false)
        } else if r < 80 {
            ("mkb", true)
        } else if r < 90 {
            ("delb", true)
        } else {
            ("gocb", true)
        };
        let mut p = self.pick_path(root_ok);
        if (c == "mkb" || c == "gocb") && p.len() >= self.maxdepth {
            p.truncate(self.maxdepth - 1);
        }
        if c == "delb" && self.rng.gen_bool(0.7) {
            // prefer deleting a bucket that exists
            let cands: Vec<Vec<i64>> = self.buckets.iter().cloned().collect();
            if !cands.is_empty() {
                let q = cands[self.rng.gen_range(0..cands.len())].clone();
                let (pp, kk) = q.split_at(q.len() - 1);
                self.do_op(op_json(t, c, pp, kk[0], v, "U", 0, "U", 0));
                if self.readback {
                    let pp = pp.to_vec();
                    self.read_all(t, &pp, false);
                }
                return;
            }
        }
        self.do_op(op_json(t, c, &p, k, v, "U", 0, "U", 0));
        if self.readback {
            self.read_all(t, &p, false);
        }
    }

    fn read_op(&mut self, t: i64) {
        let p = self.pick_path(true);
        let k = self.rng.gen_range(0..self.nk);
        let r = self.rng.gen_range(0..100);
        if p.is_empty() {
            let c = if r < 50 { "buckets" } else { "getb" };
            self.do_op(op_json(t, c, &p, k, 0, "U", 0, "U", 0));
            return;
        }
        if r < 15 {
            self.do_op(op_json(t, "get", &p, k, 0, "U", 0, "U", 0));
        } else if r < 22 {
            self.do_op(op_json(t, "getkv", &p, k, 0, "U", 0, "U", 0));
        } else if r < 30 {
            self.do_op(op_json(t, "getb", &p, k, 0, "U", 0, "U", 0));
        } else if r < 42 {
            self.do_op(op_json(t, "seek", &p, k, 0, "U", 0, "U", 0));
        } else if r < 50 {
            let lo = self.rng.gen_range(0..self.nk);
            let hi = self.rng.gen_range(0..4);
            self.do_op(op_json(t, "reseek", &p, k, 0, "U", lo, "U", hi));
        } else if r < 75 {
            let (lk, lo, hk, hi) = self.rand_bounds();
            let c = ["range", "range", "rangeb", "rangekv"][self.rng.gen_range(0..4)];
            self.do_op(op_json(t, c, &p, 0, 0, &lk, lo, &hk, hi));
        } else if r < 85 {
            self.do_op(op_json(t, "scan", &p, 0, 0, "U", 0, "U", 0));
        } else if r < 90 {
            self.do_op(op_json(t, "again", &p, 0, 0, "U", 0, "U", 0));
        } else if r < 94 {
            self.do_op(op_json(t, "buckets", &p, 0, 0, "U", 0, "U", 0));
        } else if r < 97 {
            self.do_op(op_json(t, "kvpairs", &p, 0, 0, "U", 0, "U", 0));
        } else {
            self.do_op(op_json(t, "nextint", &p, 0, 0, "U", 0, "U", 0));
        }
    }

    /// a mutator attempted through a read-only transaction (must fail with ReadOnlyTx)
    /// every kind of mutating call through the read-only transaction t, on targets that exist and on targets that
    /// do not (C06: each must fail with the read-only error and change nothing)
    fn ro_battery(&mut self, t: i64) {
        let mut paths: Vec<Vec<i64>> = self.buckets.iter().take(5).cloned().collect();
        paths.push(vec![self.nk - 1]);
        for q in paths {
            let (p, k) = (q[..q.len() - 1].to_vec(), q[q.len() - 1]);
            for c in ["gocb", "mkb", "delb"] {
                self.do_op(op_json(t, c, &p, k, 0, "U", 0, "U", 0));
            }
            for c in ["put", "del", "gocb", "mkb"] {
                self.do_op(op_json(t, c, &q, 0, 1, "U", 0, "U", 0));
            }
        }
    }

    fn ro_mutator(&mut self, t: i64) {
        let p = self.pick_path(true);
        let mut k = self.rng.gen_range(0..self.nk);
        // half of the time the key names a bucket that exists below p (a mutator that would find its target)
        let kids: Vec<i64> = self.buckets.iter().filter(|b| b.len() == p.len() + 1 && b[..p.len()] == p[..]).map(|b| b[p.len()]).collect();
        if !kids.is_empty() && self.rng.gen_bool(0.5) {
            k = kids[self.rng.gen_range(0..kids.len())];
        }
        let c = if p.is_empty() {
            ["mkb", "gocb", "delb"][self.rng.gen_range(0..3)]
        } else {
            ["put", "del", "mkb", "gocb", "delb"][self.rng.gen_range(0..5)]
        };
        self.do_op(op_json(t, c, &p, k, 0, "U", 0, "U", 0));
    }

    /// A deterministic prefix ("ladder"): n readers opened on snapshots that lie one or two commits apart, all of
    /// them open at the same time; then they are closed OLDEST FIRST with a writer commit after every close, the
    /// remaining readers re-read in full after every commit.  (Registries that lose their order or an entry, release
    /// bounds that land inside the pending list, pages of the younger readers' snapshots handed out again.)
    fn ladder(&mut self, n: usize) {
        let mut commit_some = |d: &mut Self, k: usize| -> bool {
            for _ in 0..k {
                let t = match d.begin(true) {
                    Some(t) => t,
                    None => return false,
                };
                for _ in 0..4 {
                    d.mutate(t);
                }
                if d.end(t, true) != json!(["ok"]) {
                    return false;
                }
                d.commits += 1;
                d.state_event();
                for rt in d.readers.clone() {
                    d.project(rt);
                }
            }
            true
        };
        if !commit_some(self, 2) {
            return;
        }
        for i in 0..n {
            if self.begin(false).is_none() {
                return;
            }
            if !commit_some(self, 1 + i % 2) {
                return;
            }
        }
        while let Some(oldest) = self.readers.first().cloned() {
            self.end(oldest, false);
            if !commit_some(self, 2) {
                return;
            }
        }
    }

    pub fn run(&mut self, len: usize) {
        if self.ladder_n > 0 && self.presized {
            let n = self.ladder_n;
            self.ladder(n);
        }
        let mut steps = 0usize;
        while steps < len {
            steps += 1;
            let r = self.rng.gen_range(0..100);
            match self.writer {
                None => {
                    if r < 6 && self.readers.is_empty() {
                        // close + reopen
                        self.hash_event("before-reopen");
                        self.rec.ev(json!({"ev":"closing"}));
                        let c = self.world.close();
                        // "Setting num_pages when opening an existing database has no effect"
                        self.world.opts.num_pages = [4usize, 32, 1000, 5000][self.rng.gen_range(0..4)];
                        let o = if c == json!(["ok"]) { self.world.open() } else { c };
                        self.rec.ev(json!({"ev":"reopen","res":o,"num_pages_option":self.world.opts.num_pages}));
                        self.hash_event("after-reopen");
                        if o != json!(["ok"]) {
                            return;
                        }
                    } else if r < 14 && self.readers.len() < self.max_readers {
                        if let Some(rt) = self.begin(false) {
                            if self.ro_mut_pct > 30 {
                                self.ro_battery(rt);
                            }
                        }
                    } else if self.readers.len() >= 2 && self.rng.gen_range(0..100) < self.reader_churn {
                        // the OLDEST of several readers goes away first: the next writer's release bound
                        // moves into the middle of the pending list
                        let t = self.readers[0];
                        self.end(t, false);
                    } else if r < 22 && !self.readers.is_empty() {
                        let t = self.readers[self.rng.gen_range(0..self.readers.len())];
                        if self.rng.gen_bool(self.ro_mut_pct as f64 / 100.0) {
                            self.ro_mutator(t);
                        } else if self.rng.gen_bool(0.2) {
                            self.end(t, true); // commit on a read-only tx
                        } else {
                            self.end(t, false);
                        }
                    } else {
                        if !self.presized {
                            for rt in self.readers.clone() {
                                self.end(rt, false);
                            }
                        }
                        if self.begin(true).is_none() {
                            return;
                        }
                    }
                }
                Some(t) => {
                    if r < 3 && self.presized && self.readers.len() < self.max_readers {
                        // a reader that begins while the writer is in flight
                        self.begin(false);
                    } else if r < 62 {
                        self.mutate(t);
                    } else if r < 80 {
                        self.read_op(t);
                    } else if r < 84 && !self.readers.is_empty() {
                        let rt = self.readers[self.rng.gen_range(0..self.readers.len())];
                        // (runs that ask for many read-only mutators also try them while a writer is open)
                        if self.ro_mut_pct > 30 && self.rng.gen_bool(0.6) {
                            self.ro_mutator(rt);
                        } else {
                            self.read_op(rt);
                        }
                    } else if self.rng.gen_range(0..100) >= (self.p_rollback * 100 / 16).min(90) {
                        let res = self.end(t, true);
                        if res != json!(["ok"]) {
                            return; // the trace ends with the failing commit
                        }
                        self.commits += 1;
                        self.state_event();
                        let chk = self.world.check();
                        self.rec.ev(json!({"ev":"check","res":chk}));
                        // a fresh transaction observes the committed state in full
                        if let Some(rt) = self.begin(false) {
                            self.project(rt);
                            if self.rng.gen_bool(0.5) {
                                self.end(rt, false);
                            }
                        }
                        for rt in self.readers.clone() {
                            if self.rng.gen_bool(0.3) {
                                self.project(rt);
                            }
                        }
                    } else {
                        // roll back; the shadow bucket set is rebuilt from a projection
                        self.end(t, false);
                        self.buckets.clear();
                        if let Some(rt) = self.begin(false) {
                            self.resync(rt);
                            self.end(rt, false);
                        }
                    }
                }
            }
        }
        if let Some(t) = self.writer {
            let res = self.end(t, true);
            if res == json!(["ok"]) {
                self.commits += 1;
                self.state_event();
                let chk = self.world.check();
                self.rec.ev(json!({"ev":"check","res":chk}));
            }
        }
        for rt in self.readers.clone() {
            self.project(rt);
            self.end(rt, false);
        }
        // final: reopen and observe everything
        self.rec.ev(json!({"ev":"closing"}));
        let c = self.world.close();
        let o = if c == json!(["ok"]) { self.world.open() } else { c };
        self.rec.ev(json!({"ev":"reopen","res":o}));
        if o == json!(["ok"]) {
            if let Some(rt) = self.begin(false) {
                self.project(rt);
                self.end(rt, false);
            }
        }
    }

    pub fn resync(&mut self, t: i64) {
        let mut stack: Vec<Vec<i64>> = vec![vec![]];
        while let Some(p) = stack.pop() {
            let c = if p.is_empty() { "buckets" } else { "scan" };
            let res = self.do_op(op_json(t, c, &p, 0, 0, "U", 0, "U", 0));
            if res[0] == "list" && p.len() < 6 {
                for e in res[1].as_array().unwrap() {
                    if e[1] == "b" {
                        let mut q = p.clone();
                        q.push(e[0].as_i64().unwrap());
                        self.buckets.insert(q.clone());
                        stack.push(q);
                    }
                }
            }
        }
    }
}

/// the whole file, decoded by the independent parser, for comparison with the state the
/// specification reconstructed from the write events
pub fn emit_parse(path: &std::path::Path, ps: u64, prof: &Profile) {
    let data = std::fs::read(path).unwrap_or_default();
    let fv = parse::parse_file(&data, ps, prof);
    let metas: Vec<Value> =
        fv.metas.iter().map(|m| m.as_ref().map(|m| m.json()).unwrap_or(json!({"hash_ok": false}))).collect();
    let pages: Vec<Value> = fv.pages.iter().map(|(id, d)| json!([id, d])).collect();
    rec::emit(json!({"ev":"parse","metas":metas,"chosen":fv.chosen.map(|c| c as i64).unwrap_or(-1),
                     "flen": data.len() as u64 / ps, "pages": pages}));
}

fn trace(a: &Args) -> i32 {
    let seed = a.n("seed", 1) as u64;
    let n = a.n("n", 10);
    let len = a.n("len", 60) as usize;
    let nk = a.n("nkeys", 12);
    let nv = a.n("nvals", 4);
    let pname = a.s("profile", "two");
    let out = a.s("out", "/dev/stdout");
    let dir = scratch_dir();
    let prof = Profile::new(&pname, nk as usize, nv as usize);
    let l1 = a.n("l1", 0) != 0; // also record hook points and I/O (for Trace_Page)
    let ps = a.n("pagesize", prof.pagesize as i64) as u64;
    rec::start(&out, Some(prof.clone()), ps, a.n("decode", 1) != 0);
    if l1 {
        rec::install_hook_recorder();
    }
    if a.has("raw") {
        rec::start_raw(&a.s("raw", ""));
    }
    let mut rec = Rec {};
    let keybytes: Vec<Vec<u8>> = prof.keys.iter().map(|k| k.iter().take(12).cloned().collect()).collect();
    rec.ev(json!({"ev":"hdr","profile":pname,"nkeys":nk,"nvals":nv,"seed":seed,
                  "keyprefix":keybytes}));
    for h in 0..n {
        let path = dir.join(format!("t{}.db", h % 4));
        let _ = std::fs::remove_file(&path);
        let mut opts = opts_from(a, &prof);
        let mut rng = StdRng::seed_from_u64(seed.wrapping_mul(1_000_003).wrapping_add(h as u64));
        let presized = if a.has("presized") { a.n("presized", 1) != 0 } else { rng.gen_bool(0.6) };
        if !a.has("num-pages") {
            opts.num_pages = if presized { a.n("presized-pages", 16384) as usize } else { 4 };
        }
        if l1 {
            iohook::set_target(&path);
        }
        rec::reset_write_index();
        rec.ev(json!({"ev":"reset","h":h,"presized":presized,"pagesize":ps,"np0":opts.num_pages}));
        let mut world = World::new(prof.clone(), path, opts);
        let r = world.open();
        rec.ev(json!({"ev":"opened","h":h,"res":r}));
        if r != json!(["ok"]) {
            continue;
        }
        let mut d = Driver {
            rng,
            world,
            rec: &mut rec,
            nk,
            nv,
            maxdepth: a.n("depth", 3) as usize,
            buckets: BTreeSet::new(),
            writer: None,
            readers: Vec::new(),
            next_t: 1,
            readback: a.n("readback", 1) != 0,
            presized,
            commits: 0,
            states: a.n("states", 0) != 0,
            max_readers: a.n("max-readers", 2) as usize,
            reader_churn: a.n("reader-churn", 0),
            ladder_n: a.n("ladder", 0) as usize,
            ro_mut_pct: a.n("ro-mutators", 30),
            hashes: a.n("hashes", 0) != 0,
            p_rollback: a.n("p-rollback", 6) as u32,
        };
        d.state_event();
        d.run(len);
        let Driver { mut world, .. } = d;
        rec.ev(json!({"ev":"closing"}));
        world.close();
        if l1 {
            rec.ev(json!({"ev":"closed"}));
            emit_parse(&world.path, ps, &prof);
        }
    }
    let n = rec::count();
    rec::finish();
    iohook::deactivate();
    let _ = std::fs::remove_dir_all(&dir);
    eprintln!("events {}", n);
    0
}
