//! C13: several PROCESSES opening one database file.  Workers are this binary in
//! `procs-worker` mode; their hook handler announces every gated hook point on stdout and
//! blocks until the controller answers on stdin.  The controller forces TLC-generated
//! orderings (Gen_OpenLock).  Overlap is observed by EFFECT: every worker reports the
//! monotonic time at which its open returned and at which it is about to close, the markers it
//! found, and commits its own marker while inside.

use std::{
    collections::HashMap,
    io::{BufRead, BufReader, Write},
    process::{Child, ChildStdin, Command, Stdio},
    sync::mpsc::{channel, Receiver},
    time::{Duration, Instant},
};

use jammdb::{Data, OpenOptions};
use serde_json::{json, Value};

use crate::Args;

const GATES: &[&str] = &[
    "open:enter", "init:enter", "init:created", "init:allocated", "init:synced", "open:existing", "open:before_lock",
    "open:locked", "open:done",
];

fn now_ns() -> u64 {
    let mut ts: libc::timespec = unsafe { std::mem::zeroed() };
    unsafe { libc::clock_gettime(libc::CLOCK_MONOTONIC, &mut ts) };
    ts.tv_sec as u64 * 1_000_000_000 + ts.tv_nsec as u64
}

fn raw_out(s: &str) {
    let b = s.as_bytes();
    unsafe { libc::syscall(libc::SYS_write, 1, b.as_ptr(), b.len()) };
}

fn gate(name: &str) {
    raw_out(&format!("AT {} {}\n", name, now_ns()));
    // wait for one line on stdin
    let mut c = [0u8; 1];
    loop {
        let r = unsafe { libc::syscall(libc::SYS_read, 0, c.as_mut_ptr(), 1) };
        if r <= 0 || c[0] == b'\n' {
            break;
        }
    }
}

/// jvh procs-worker --path P --id N --gated 0|1 [--hold-ms M --delay-ms D]
pub fn worker(a: &Args) -> i32 {
    let path = a.s("path", "");
    let id = a.n("id", 1);
    let gated = a.n("gated", 1) != 0;
    if gated {
        jammdb::verif::set_handler(Some(std::sync::Arc::new(|name: &'static str, _args: &[(&'static str, u64)]| {
            if GATES.contains(&name) {
                gate(name);
            }
        })));
    }
    if a.n("delay-ms", 0) > 0 {
        std::thread::sleep(Duration::from_millis(a.n("delay-ms", 0) as u64));
    }
    let t_start = now_ns();
    let r = std::panic::catch_unwind(|| OpenOptions::new().pagesize(1024).num_pages(8).open(&path));
    let mut res = json!({"id": id, "t_start": t_start});
    match r {
        Ok(Ok(db)) => {
            let t_open = now_ns();
            let inner = std::panic::catch_unwind(std::panic::AssertUnwindSafe(|| -> Result<Vec<i64>, String> {
                let tx = db.tx(true).map_err(|e| format!("{}", e))?;
                let mut seen: Vec<i64> = Vec::new();
                {
                    let b = tx.get_or_create_bucket("m").map_err(|e| format!("{}", e))?;
                    for d in b.cursor() {
                        if let Data::KeyValue(kv) = d {
                            seen.push(String::from_utf8_lossy(kv.key()).parse().unwrap_or(-1));
                        }
                    }
                    // (9000 bytes: the first commit on the 8-page file has to extend it, so that the
                    // resize path runs while other openers wait for the lock)
                    b.put(format!("{:04}", id).into_bytes(), vec![b'x'; 9000]).map_err(|e| format!("{}", e))?;
                }
                tx.commit().map_err(|e| format!("{}", e))?;
                // the handle is cloned for a helper thread (documented use); dropping the clone
                // must not let anybody else in while the original is still open
                let clone = db.clone();
                let h = std::thread::spawn(move || {
                    let r = (|| -> Result<(), jammdb::Error> {
                        let tx = clone.tx(true)?;
                        {
                            let b = tx.get_or_create_bucket("helper")?;
                            b.put("k", "v")?;
                        }
                        tx.commit()
                    })();
                    drop(clone);
                    r.map_err(|e| format!("{}", e))
                });
                h.join().map_err(|_| "helper panicked".to_string())??;
                Ok(seen)
            }));
            if gated {
                gate("in-db");
            }
            if a.n("hold-ms", 0) > 0 {
                std::thread::sleep(Duration::from_millis(a.n("hold-ms", 0) as u64));
            }
            let t_close = now_ns();
            drop(db);
            res["t_open"] = json!(t_open);
            res["t_close"] = json!(t_close);
            match inner {
                Ok(Ok(seen)) => {
                    res["result"] = json!("ok");
                    res["seen"] = json!(seen);
                }
                Ok(Err(e)) => res["result"] = json!(format!("tx failed: {}", e)),
                Err(_) => res["result"] = json!(format!("tx panicked: {}", crate::exec::LAST_PANIC.with(|p| p.borrow().clone()))),
            }
        }
        Ok(Err(e)) => res["result"] = json!(format!("open error: {}", e)),
        Err(_) => res["result"] = json!(format!("open panicked: {}", crate::exec::LAST_PANIC.with(|p| p.borrow().clone()))),
    }
    raw_out(&format!("RESULT {}\n", res));
    0
}

struct W {
    id: i64,
    trace: std::rc::Rc<std::cell::RefCell<Vec<Value>>>,
    child: Child,
    stdin: ChildStdin,
    rx: Receiver<String>,
    at: Option<String>,
    result: Option<Value>,
    exited: bool,
}

impl W {
    /// consume announcements until the worker is parked, finished, or the deadline passes
    fn settle(&mut self, ms: u64) -> bool {
        if self.at.is_some() || self.result.is_some() {
            return true;
        }
        let deadline = Instant::now() + Duration::from_millis(ms);
        loop {
            let now = Instant::now();
            if now >= deadline {
                return false;
            }
            match self.rx.recv_timeout(deadline - now) {
                Ok(line) => {
                    if let Some(n) = line.strip_prefix("AT ") {
                        let mut it = n.trim().split(' ');
                        let name = it.next().unwrap_or("").to_string();
                        let ts: u64 = it.next().and_then(|x| x.parse().ok()).unwrap_or(0);
                        self.at = Some(name.clone());
                        self.trace.borrow_mut().push(json!({"ev":"at","p":self.id,"h":name,"ts":ts}));
                        return true;
                    }
                    if let Some(r) = line.strip_prefix("RESULT ") {
                        self.result = serde_json::from_str(r.trim()).ok();
                        if let Some(rv) = &self.result {
                            // the lock is released when the handle is dropped, right after t_close
                            self.trace.borrow_mut().push(json!({"ev":"result","p":self.id,"res":rv["result"],
                                "seen": rv.get("seen").cloned().unwrap_or(json!([])),
                                "ts": rv.get("t_close").and_then(|x| x.as_u64()).unwrap_or(u64::MAX / 2)}));
                        }
                        return true;
                    }
                }
                Err(_) => {
                    if let Ok(Some(_)) = self.child.try_wait() {
                        self.exited = true;
                        return true;
                    }
                }
            }
        }
    }
    fn go(&mut self) {
        self.at = None;
        let _ = self.stdin.write_all(b"\n");
        let _ = self.stdin.flush();
    }
}

fn spawn(path: &str, id: i64, gated: bool, extra: &[String], trace: std::rc::Rc<std::cell::RefCell<Vec<Value>>>) -> W {
    let exe = std::env::current_exe().unwrap();
    let mut child = Command::new(exe)
        .arg("procs-worker")
        .args(["--path", path, "--id", &id.to_string(), "--gated", if gated { "1" } else { "0" }, "--watchdog", "60"])
        .args(extra)
        .stdin(Stdio::piped())
        .stdout(Stdio::piped())
        .stderr(Stdio::null())
        .spawn()
        .expect("spawn worker");
    let stdin = child.stdin.take().unwrap();
    let stdout = child.stdout.take().unwrap();
    let (tx, rx) = channel();
    std::thread::spawn(move || {
        for line in BufReader::new(stdout).lines() {
            match line {
                Ok(l) => {
                    if tx.send(l).is_err() {
                        break;
                    }
                }
                Err(_) => break,
            }
        }
    });
    W { id, trace, child, stdin, rx, at: None, result: None, exited: false }
}

fn evaluate(ws: &mut HashMap<i64, W>, n: i64) -> (Vec<Value>, Vec<String>) {
    let mut problems: Vec<String> = Vec::new();
    let mut results: Vec<Value> = Vec::new();
    for id in 1..=n {
        let w = ws.get_mut(&id).unwrap();
        let status = w.child.wait().ok();
        match &w.result {
            Some(r) => {
                results.push(r.clone());
                if r["result"] != "ok" {
                    problems.push(format!("opener {} failed: {}", id, r["result"]));
                }
            }
            None => problems.push(format!("opener {} died without a result (status {:?})", id, status)),
        }
    }
    // two openers inside at the same time? (intervals [t_open, t_close])
    for a in &results {
        for b in &results {
            if a["id"].as_i64() < b["id"].as_i64() && a["result"] == "ok" && b["result"] == "ok" {
                let (ao, ac, bo, bc) = (a["t_open"].as_u64().unwrap(), a["t_close"].as_u64().unwrap(),
                                        b["t_open"].as_u64().unwrap(), b["t_close"].as_u64().unwrap());
                if ao < bc && bo < ac {
                    problems.push(format!("openers {} and {} were inside the database at the same time", a["id"], b["id"]));
                }
            }
        }
    }
    // whoever got in later sees the marker of everyone who had closed before it STARTED, and
    // more generally of everyone who closed before it got in
    for b in &results {
        if b["result"] != "ok" {
            continue;
        }
        let seen: Vec<i64> = b["seen"].as_array().unwrap().iter().map(|x| x.as_i64().unwrap()).collect();
        for a in &results {
            if a["id"] != b["id"] && a["result"] == "ok" && a["t_close"].as_u64().unwrap() < b["t_open"].as_u64().unwrap()
                && !seen.contains(&a["id"].as_i64().unwrap())
            {
                problems.push(format!("opener {} does not see what opener {} committed before closing", b["id"], a["id"]));
            }
        }
    }
    (results, problems)
}

/// jvh procs-run --orderings F.json --procs N --exists 0|1 --out O [--ungated N --seed S]
pub fn run(a: &Args) -> i32 {
    use rand::{rngs::StdRng, Rng, SeedableRng};
    let n = a.n("procs", 2);
    let exists = a.n("exists", 0) != 0;
    let out = a.s("out", "/dev/stdout");
    let dir = crate::scratch_dir();
    let path = dir.join("procs.db");
    let mut w = std::io::BufWriter::new(std::fs::File::create(&out).unwrap());
    let mut runs = 0u64;
    let mut bad = 0u64;
    let max_bad = a.n("max-bad", 8) as u64;
    let mut sample: Vec<Value> = Vec::new();
    let mut tracew = if a.has("trace-out") {
        Some(std::io::BufWriter::new(std::fs::File::create(a.s("trace-out", "")).unwrap()))
    } else {
        None
    };
    let prepare = |path: &std::path::Path| {
        let _ = std::fs::remove_file(path);
        if exists {
            let db = OpenOptions::new().pagesize(1024).num_pages(8).open(path).unwrap();
            drop(db);
        }
    };
    if a.has("orderings") {
        let all: Value = serde_json::from_str(&std::fs::read_to_string(a.s("orderings", "")).unwrap()).unwrap();
        for (idx, o) in all.as_array().unwrap().iter().enumerate() {
            crate::tick();
            if bad >= max_bad {
                break; // a verdict needs examples, not every failing ordering (each may wait for timeouts)
            }
            prepare(&path);
            let mut ws: HashMap<i64, W> = HashMap::new();
            let trace = std::rc::Rc::new(std::cell::RefCell::new(vec![json!({"ev":"reset","exists":exists,"idx":idx})]));
            for id in 1..=n {
                ws.insert(id, spawn(path.to_str().unwrap(), id, true, &[], trace.clone()));
            }
            let mut notes: Vec<String> = Vec::new();
            let mut inside: std::collections::HashSet<i64> = std::collections::HashSet::new();
            let entries: Vec<(i64, String)> = o["sched"].as_array().unwrap().iter()
                .map(|e| (e[0].as_i64().unwrap(), e[1].as_str().unwrap().to_string())).collect();
            for (ei, (p, target)) in entries.iter().enumerate() {
                let p = *p;
                let target = target.as_str();
                // who takes the lock next according to the model
                let next_locker = entries[ei..].iter().find(|(_, t)| t == "open:locked").map(|(q, _)| *q);
                let wk = ws.get_mut(&p).unwrap();
                // run the process to the hook point the model names (others are passed through)
                let mut hops = 0;
                loop {
                    if !wk.settle(3000) {
                        notes.push(format!("process {} did not arrive at {} (blocked although the model says it can proceed)", p, target));
                        break;
                    }
                    if wk.result.is_some() || wk.exited {
                        inside.remove(&p);
                        break;
                    }
                    let at = wk.at.clone().unwrap_or_default();
                    if at == target {
                        if at == "open:before_lock" && inside.iter().any(|q| *q != p) && next_locker == Some(p) {
                            // negative probe: somebody else is inside, so this process may run
                            // into flock() -- it must stay blocked there until the other one has
                            // closed (checked on the recorded order of hook points)
                            wk.go();
                            // in the first orderings the holder stays inside for a while longer: a lock wait
                            // that gives up (polling with a limit) shows only then
                            if idx < 12 {
                                std::thread::sleep(Duration::from_millis(150));
                            }
                        }
                        if at == "open:locked" {
                            inside.insert(p);
                        }
                        break; // parked where the model says this step ends
                    }
                    wk.go();
                    hops += 1;
                    if hops > 30 {
                        break;
                    }
                }
            }
            // let everybody finish
            let deadline = Instant::now() + Duration::from_secs(15);
            loop {
                let mut all_done = true;
                for id in 1..=n {
                    let wk = ws.get_mut(&id).unwrap();
                    if wk.result.is_none() && !wk.exited {
                        all_done = false;
                        if wk.settle(20) && wk.at.is_some() {
                            wk.go();
                        }
                    }
                }
                if all_done || Instant::now() > deadline {
                    break;
                }
            }
            for id in 1..=n {
                let wk = ws.get_mut(&id).unwrap();
                if wk.result.is_none() && !wk.exited {
                    notes.push(format!("process {} never finished", id));
                    let _ = wk.child.kill();
                }
            }
            let (results, mut problems) = evaluate(&mut ws, n);
            problems.extend(notes);
            runs += 1;
            if let Some(tw) = tracew.as_mut() {
                // the order of events is the order of the workers' own monotonic timestamps
                let mut evs = trace.borrow().clone();
                evs.sort_by_key(|e| e.get("ts").and_then(|x| x.as_u64()).unwrap_or(0));
                for e in evs.iter() {
                    writeln!(tw, "{}", e).unwrap();
                }
            }
            if sample.len() < 2 {
                sample.push(json!(results));
            }
            if !problems.is_empty() {
                bad += 1;
                writeln!(w, "{}", json!({"idx": idx, "problems": problems, "results": results, "sched": o["sched"],
                                          "model_result": o["result"]})).unwrap();
            }
        }
    }
    // ungated: varied start offsets and hold times
    let mut rng = StdRng::seed_from_u64(a.n("seed", 1) as u64);
    for i in 0..a.n("ungated", 0) {
        crate::tick();
        if bad >= max_bad {
            break;
        }
        prepare(&path);
        let mut ws: HashMap<i64, W> = HashMap::new();
        let mut params: Vec<Value> = Vec::new();
        for id in 1..=n {
            let delay = rng.gen_range(0..6);
            // (every fifth run: one long stay inside, so that the others wait for the lock for a long time)
            let hold = if i % 5 == 0 && id == 1 { rng.gen_range(90..180) } else { rng.gen_range(0..12) };
            params.push(json!([id, delay, hold]));
            ws.insert(id, spawn(path.to_str().unwrap(), id, false,
                                &["--delay-ms".into(), delay.to_string(), "--hold-ms".into(), hold.to_string()],
                                std::rc::Rc::new(std::cell::RefCell::new(Vec::new()))));
        }
        for id in 1..=n {
            let wk = ws.get_mut(&id).unwrap();
            if !wk.settle(20000) {
                let _ = wk.child.kill();
            }
        }
        let (results, problems) = evaluate(&mut ws, n);
        runs += 1;
        if !problems.is_empty() {
            bad += 1;
            writeln!(w, "{}", json!({"idx": 1_000_000 + i, "problems": problems, "results": results, "ungated": params})).unwrap();
        }
    }
    if let Some(tw) = tracew.as_mut() {
        tw.flush().unwrap();
    }
    writeln!(w, "{}", json!({"summary": true, "runs": runs, "bad": bad, "sample": sample})).unwrap();
    w.flush().unwrap();
    let _ = std::fs::remove_dir_all(&dir);
    0
}
