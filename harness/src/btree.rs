//! Replay of BTree.tla behaviours (MC_BTree with Emit = TRUE) into the real code.
//!
//! One input line = one history: the seed transactions, then `hist` (operations and commits) up
//! to a commit.  The history is run on a fresh file with the `bt` profile (uniform element
//! sizes, the ones the model is instantiated with).  Judged against the reference map:
//!   * inside every write transaction, after every operation: get of every key and a full
//!     cursor scan (C07);
//!   * after the last commit, in a new read-only transaction: get of every key, full scan (C01).
//! Conformance (not a property): the page structure of the bucket's tree in the file, decoded by
//! the independent parser, is compared with the structure the model computed.

use std::{
    collections::BTreeMap,
    io::{BufRead, Write},
    panic::{catch_unwind, AssertUnwindSafe},
    path::Path,
};

use jammdb::{Data, OpenOptions, DB};
use serde_json::{json, Value};

use crate::{exec::LAST_PANIC, parse, profiles::Profile, Args};

type Ref = BTreeMap<i64, i64>;

thread_local! {
    /// keys whose pairs carry a 1500-byte value (BTree.tla: BigKeys / BigElem)
    static BIG: std::cell::RefCell<std::collections::BTreeSet<i64>> = std::cell::RefCell::new(Default::default());
}
fn is_big(k: i64) -> bool {
    BIG.with(|b| b.borrow().contains(&k))
}
/// the value of version v under key k
fn val_of(prof: &Profile, k: i64, v: i64) -> Vec<u8> {
    if is_big(k) {
        vec![b'0' + v as u8; 1500]
    } else {
        prof.val(v)
    }
}
/// the version a value read under key k carries (-1: not a value this harness wrote there)
fn vid(prof: &Profile, k: i64, bytes: &[u8]) -> i64 {
    if is_big(k) {
        if bytes.len() == 1500 && bytes.iter().all(|b| *b == bytes[0]) {
            (bytes[0] - b'0') as i64
        } else {
            -1
        }
    } else {
        prof.val_id(bytes)
    }
}

fn next_ver(v: i64) -> i64 {
    if v == 1 {
        2
    } else {
        1
    }
}

fn next_bver(v: i64) -> i64 {
    if v == 10 {
        11
    } else {
        10
    }
}

fn open(path: &Path, ps: u64) -> Result<DB, String> {
    match catch_unwind(AssertUnwindSafe(|| OpenOptions::new().pagesize(ps).num_pages(64).open(path))) {
        Ok(Ok(db)) => Ok(db),
        Ok(Err(e)) => Err(format!("open: {}", e)),
        Err(_) => Err(format!("open panicked: {}", LAST_PANIC.with(|p| p.borrow().clone()))),
    }
}

/// reads through one bucket handle: get of every key, then a full scan
/// the value of a nested bucket's entry as the reference sees it: 10 + the version stored inside
/// (deep: read it; otherwise -- inside the write transaction, where opening the nested bucket would
/// itself change what commit does -- only the kind is compared)
fn bval(b: &jammdb::Bucket, name: &[u8], prof: &Profile, deep: bool, exp: i64) -> i64 {
    if !deep {
        return if exp >= 10 { exp } else { 10 };
    }
    match b.get_bucket(name.to_vec()) {
        Ok(n) => match n.get("x") {
            Some(Data::KeyValue(kv)) => 10 + prof.val_id(kv.value()),
            _ => -8,
        },
        Err(_) => -7,
    }
}

fn read_all(b: &jammdb::Bucket, prof: &Profile, nkeys: i64, rf: &Ref, at: &str, problems: &mut Vec<Value>) {
    let deep = at == "after commit";
    for k in 1..=nkeys {
        let exp = *rf.get(&k).unwrap_or(&0);
        let got = match b.get(prof.key(k)) {
            Some(Data::KeyValue(kv)) => vid(prof, k, kv.value()),
            Some(Data::Bucket(n)) => bval(b, n.name(), prof, deep, exp),
            None => 0,
        };
        if got != exp {
            problems.push(json!({"kind":"get","at":at,"key":k,"got":got,"exp":exp}));
        }
    }
    let mut scan: Vec<Value> = Vec::new();
    for d in b.cursor() {
        match d {
            Data::KeyValue(kv) => {
                let k = prof.key_id(kv.key());
                scan.push(json!([k, vid(prof, k, kv.value())]))
            }
            Data::Bucket(n) => {
                let k = prof.key_id(n.name());
                scan.push(json!([k, bval(b, n.name(), prof, deep, *rf.get(&k).unwrap_or(&0))]))
            }
        }
        if scan.len() > 4 * nkeys as usize + 8 {
            break;
        }
    }
    let exp: Vec<Value> = rf.iter().map(|(k, v)| json!([k, v])).collect();
    if scan != exp {
        problems.push(json!({"kind":"scan","at":at,"got":scan,"exp":exp}));
    }
    // seek of every key: existence, position (the key, or an immediate neighbour of an absent key), and
    // every later entry in order
    for k in 1..=nkeys {
        let mut c = b.cursor();
        let exists = c.seek(prof.key(k));
        let mut got: Vec<i64> = Vec::new();
        for d in c {
            match d {
                Data::KeyValue(kv) => got.push(prof.key_id(kv.key())),
                Data::Bucket(n) => got.push(prof.key_id(n.name())),
            }
            if got.len() > 4 * nkeys as usize + 8 {
                break;
            }
        }
        let present = rf.contains_key(&k);
        let below = rf.range(..k).next_back().map(|(x, _)| *x);
        let above = rf.range(k + 1..).next().map(|(x, _)| *x);
        let cur = got.first().cloned();
        let pos_ok = if present {
            cur == Some(k)
        } else if rf.is_empty() {
            cur.is_none()
        } else {
            cur.is_some() && (cur == below || cur == above)
        };
        let tail_ok = match cur {
            Some(c0) => got == rf.range(c0..).map(|(x, _)| *x).collect::<Vec<i64>>(),
            None => true,
        };
        if exists != present || !pos_ok || !tail_ok {
            problems.push(json!({"kind":"seek","at":at,"key":k,"exists":exists,"got":got,"below":below,"above":above}));
        }
        // ranges starting / ending at k
        let kb = prof.key(k);
        let keys_of = |it: &mut dyn Iterator<Item = Data>| -> Vec<i64> {
            let mut v = Vec::new();
            for d in it {
                match d {
                    Data::KeyValue(kv) => v.push(prof.key_id(kv.key())),
                    Data::Bucket(n) => v.push(prof.key_id(n.name())),
                }
                if v.len() > 4 * nkeys as usize + 8 {
                    break;
                }
            }
            v
        };
        use std::ops::Bound::{Excluded, Included, Unbounded};
        let got_from = keys_of(&mut b.range(&kb[..]..));
        let exp_from: Vec<i64> = rf.range(k..).map(|(x, _)| *x).collect();
        let got_after = keys_of(&mut b.range::<(std::ops::Bound<&[u8]>, std::ops::Bound<&[u8]>)>((Excluded(&kb[..]), Unbounded)));
        let exp_after: Vec<i64> = rf.range(k + 1..).map(|(x, _)| *x).collect();
        let got_upto = keys_of(&mut b.range::<(std::ops::Bound<&[u8]>, std::ops::Bound<&[u8]>)>((Unbounded, Included(&kb[..]))));
        let exp_upto: Vec<i64> = rf.range(..=k).map(|(x, _)| *x).collect();
        if got_from != exp_from || got_after != exp_after || got_upto != exp_upto {
            problems.push(json!({"kind":"range","at":at,"key":k,"from":[got_from, exp_from],"after":[got_after, exp_after],
                                 "upto":[got_upto, exp_upto]}));
        }
    }
}

/// one write transaction: ops, with read-back after each; commit
fn run_tx(db: &DB, prof: &Profile, nkeys: i64, ops: &[(String, i64)], rf: &mut Ref, readback: bool, at: &str,
          problems: &mut Vec<Value>) {
    let r = catch_unwind(AssertUnwindSafe(|| -> Result<(), String> {
        let tx = db.tx(true).map_err(|e| format!("tx: {}", e))?;
        {
            let b = tx.get_or_create_bucket("b").map_err(|e| format!("bucket: {}", e))?;
            for (i, (kind, k)) in ops.iter().enumerate() {
                if kind == "put" {
                    let v = next_ver(*rf.get(k).unwrap_or(&0));
                    b.put(prof.key(*k), val_of(prof, *k, v)).map_err(|e| format!("put: {}", e))?;
                    rf.insert(*k, v);
                } else if kind == "mkb" {
                    // a nested bucket; its content carries the version (10: x = value 0, 11: x = value 1)
                    let n = b.create_bucket(prof.key(*k)).map_err(|e| format!("create_bucket: {}", e))?;
                    n.put("x", prof.val(0)).map_err(|e| format!("put in nested: {}", e))?;
                    rf.insert(*k, 10);
                } else if kind == "touch" {
                    let v = next_bver(*rf.get(k).unwrap_or(&0));
                    let n = b.get_bucket(prof.key(*k)).map_err(|e| format!("get_bucket: {}", e))?;
                    n.put("x", prof.val(v - 10)).map_err(|e| format!("put in nested: {}", e))?;
                    rf.insert(*k, v);
                } else if kind == "delb" {
                    b.delete_bucket(prof.key(*k)).map_err(|e| format!("delete_bucket: {}", e))?;
                    rf.remove(k);
                } else {
                    let had = rf.remove(k).is_some();
                    match b.delete(prof.key(*k)) {
                        Ok(_) if had => {}
                        Err(_) if !had => {}
                        Ok(_) => return Err(format!("delete of absent key {} succeeded", k)),
                        Err(e) => return Err(format!("delete of present key {}: {}", k, e)),
                    }
                }
                if readback {
                    read_all(&b, prof, nkeys, rf, &format!("{} op {}", at, i + 1), problems);
                }
            }
        }
        tx.commit().map_err(|e| format!("commit: {}", e))
    }));
    match r {
        Ok(Ok(())) => {}
        Ok(Err(e)) => problems.push(json!({"kind":"error","at":at,"what":e})),
        Err(_) => problems.push(json!({"kind":"panic","at":at,"what":LAST_PANIC.with(|p| p.borrow().clone())})),
    }
}

/// the page structure of bucket "b" as the parser sees it: {"l":[keys]} / {"b":[{"k":key,"c":shape}]}
fn shape_of(path: &Path, ps: u64, prof: &Profile) -> Value {
    let data = std::fs::read(path).unwrap_or_default();
    let fv = parse::parse_file(&data, ps, prof);
    let pages: BTreeMap<u64, &Value> = fv.pages.iter().map(|(id, d)| (*id, d)).collect();
    let chosen = match fv.chosen {
        Some(c) => fv.metas[c].clone().unwrap(),
        None => return json!({"bad":"no valid header"}),
    };
    // the root bucket's tree holds the one bucket entry
    fn find_bucket(pages: &BTreeMap<u64, &Value>, pid: u64, depth: u32) -> Option<u64> {
        let p = pages.get(&pid)?;
        if depth > 8 {
            return None;
        }
        if p["ptype"] == parse::T_LEAF {
            for e in p["elems"].as_array()? {
                if e[1] == 1 {
                    return e[2].as_u64();
                }
            }
            None
        } else {
            for e in p["elems"].as_array()? {
                if let Some(r) = find_bucket(pages, e[1].as_u64()?, depth + 1) {
                    return Some(r);
                }
            }
            None
        }
    }
    fn shape(pages: &BTreeMap<u64, &Value>, pid: u64, depth: u32) -> Value {
        let p = match pages.get(&pid) {
            Some(p) if depth < 40 => p,
            _ => return json!({"bad": pid}),
        };
        let elems = p["elems"].as_array().cloned().unwrap_or_default();
        if p["ptype"] == parse::T_LEAF {
            json!({"l": elems.iter().map(|e| e[0].clone()).collect::<Vec<_>>()})
        } else {
            json!({"b": elems.iter().map(|e| json!({"k": e[0], "c": shape(pages, e[1].as_u64().unwrap_or(0), depth + 1)}))
                              .collect::<Vec<_>>()})
        }
    }
    match find_bucket(&pages, chosen.root, 0) {
        Some(r) => shape(&pages, r, 0),
        None => json!({"bad":"bucket b not found"}),
    }
}

fn split_txs(hist: &[Value]) -> Vec<Vec<(String, i64)>> {
    let mut txs = Vec::new();
    let mut cur = Vec::new();
    for h in hist {
        let kind = h[0].as_str().unwrap_or("").to_string();
        if kind == "commit" {
            txs.push(std::mem::take(&mut cur));
        } else {
            cur.push((kind, h[1].as_i64().unwrap_or(0)));
        }
    }
    txs
}

/// jvh btree-run --in behaviours.jsonl --out results.jsonl --nkeys N [--pagesize 1024] [--readback 1]
pub fn btree_run(a: &Args) -> i32 {
    let nkeys = a.n("nkeys", 16);
    let ps = a.n("pagesize", 1024) as u64;
    let readback = a.n("readback", 1) != 0;
    BIG.with(|b| {
        *b.borrow_mut() = a.s("big", "").split(',').filter(|x| !x.is_empty()).map(|x| x.parse().expect("--big")).collect()
    });
    let prof = Profile::new("bt", nkeys as usize + 1, 3);
    let dir = crate::scratch_dir();
    let tag = format!("{}-{}", a.s("scratch-tag", "bt"), std::process::id());
    let tmpl = dir.join(format!("{}-seed.db", tag));
    let path = dir.join(format!("{}.db", tag));
    let input = std::io::BufReader::new(std::fs::File::open(a.s("in", "")).expect("--in"));
    let mut out = std::io::BufWriter::new(std::fs::File::create(a.s("out", "/dev/stdout")).expect("--out"));
    let mut seed_key = String::new();
    let mut seed_ref: Ref = Ref::new();
    let mut seed_problems: Vec<Value> = Vec::new();
    let (mut n, mut bad, mut shape_diff) = (0u64, 0u64, 0u64);
    for (i, line) in input.lines().enumerate() {
        let line = line.unwrap();
        if line.trim().is_empty() {
            continue;
        }
        let v: Value = serde_json::from_str(&line).expect("behaviour line");
        crate::watchdog_kick();
        // the seed tree is built once per distinct seed and copied
        let sk = v["seed"].to_string();
        if sk != seed_key {
            seed_key = sk;
            seed_ref = Ref::new();
            seed_problems = Vec::new();
            let _ = std::fs::remove_file(&tmpl);
            match open(&tmpl, ps) {
                Ok(db) => {
                    for (j, txv) in v["seed"].as_array().cloned().unwrap_or_default().iter().enumerate() {
                        let ops: Vec<(String, i64)> = txv.as_array().unwrap().iter()
                            .map(|o| (o[0].as_str().unwrap().to_string(), o[1].as_i64().unwrap())).collect();
                        run_tx(&db, &prof, nkeys, &ops, &mut seed_ref, readback, &format!("seed tx {}", j + 1),
                               &mut seed_problems);
                    }
                }
                Err(e) => seed_problems.push(json!({"kind":"error","at":"seed","what":e})),
            }
        }
        let mut problems = seed_problems.clone();
        let mut rf = seed_ref.clone();
        std::fs::copy(&tmpl, &path).expect("copy seed file");
        let txs = split_txs(v["hist"].as_array().map(|x| x.as_slice()).unwrap_or(&[]));
        let mut shape = Value::Null;
        match open(&path, ps) {
            Ok(db) => {
                for (j, ops) in txs.iter().enumerate() {
                    if !problems.is_empty() {
                        break;
                    }
                    run_tx(&db, &prof, nkeys, ops, &mut rf, readback, &format!("tx {}", j + 1), &mut problems);
                }
                if problems.is_empty() {
                    // committed state, new read-only transaction
                    let r = catch_unwind(AssertUnwindSafe(|| -> Result<(), String> {
                        let tx = db.tx(false).map_err(|e| format!("tx: {}", e))?;
                        let b = tx.get_bucket("b").map_err(|e| format!("bucket: {}", e))?;
                        read_all(&b, &prof, nkeys, &rf, "after commit", &mut problems);
                        Ok(())
                    }));
                    match r {
                        Ok(Ok(())) => {}
                        Ok(Err(e)) => problems.push(json!({"kind":"error","at":"after commit","what":e})),
                        Err(_) => problems.push(json!({"kind":"panic","at":"after commit",
                                                       "what":LAST_PANIC.with(|p| p.borrow().clone())})),
                    }
                }
                let _ = catch_unwind(AssertUnwindSafe(move || drop(db)));
                if problems.is_empty() {
                    shape = shape_of(&path, ps, &prof);
                }
            }
            Err(e) => problems.push(json!({"kind":"error","at":"open","what":e})),
        }
        // the model's reference listing is cross-checked too (same semantics, two derivations)
        let mlist: Vec<Value> = v["list"].as_array().cloned().unwrap_or_default();
        let hlist: Vec<Value> = rf.iter().map(|(k, v)| json!([k, v])).collect();
        let model_ok = mlist == hlist;
        let shape_equal = shape == v["shape"];
        n += 1;
        if !problems.is_empty() {
            bad += 1;
        }
        if problems.is_empty() && !shape_equal {
            shape_diff += 1;
        }
        if !problems.is_empty() || !shape_equal || !model_ok {
            writeln!(out, "{}", json!({"i": i, "problems": problems, "shape_equal": shape_equal, "model_list_ok": model_ok,
                                       "got_shape": shape, "exp_shape": v["shape"], "seed": v["seed"], "hist": v["hist"]}))
                .unwrap();
        }
    }
    let _ = std::fs::remove_file(&tmpl);
    let _ = std::fs::remove_file(&path);
    writeln!(out, "{}", json!({"summary": true, "behaviours": n, "with_problems": bad, "shape_differs": shape_diff})).unwrap();
    0
}
