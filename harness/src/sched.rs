//! Deterministic thread scheduler over the yield hook points (C04, C09).
//! Real OS threads run reader / writer transactions; at every model-relevant yield point a
//! thread parks until the controller grants it.  The controller follows a schedule generated
//! by TLC from Threads.tla (sequence of <<thread, yield point reached>>).  Observations are
//! made by the harness, not by hooks: what each reader sees at several moments of its life,
//! which commits had returned before it began, overlap of write transactions, the final
//! counter, and whether every thread finishes.

use std::{
    collections::{HashMap, HashSet},
    io::Write,
    sync::{
        atomic::{AtomicBool, AtomicI64, Ordering},
        Arc, Condvar, Mutex,
    },
    time::{Duration, Instant},
};

use jammdb::{Data, OpenOptions, DB};
use rand::{rngs::StdRng, Rng, SeedableRng};
use serde_json::{json, Value};

use crate::Args;

const YIELDS: &[&str] = &[
    "tx:locked", "tx:fl_cloned", "tx:meta_read", "tx:reg_done", "tx:ready", "commit:spilled", "resize:allocated",
    "resize:have_map_lock", "commit:sized", "commit:data_written", "commit:meta_written", "commit:done",
    "drop:enter", "drop:done", "h:start", "h:read", "h:tx_done",
];

#[derive(Default)]
struct St {
    parked: HashMap<i64, &'static str>,
    granted: HashSet<i64>,
    finished: HashSet<i64>,
    last: HashMap<i64, &'static str>,
    free_run: bool,
}

struct Ctl {
    st: Mutex<St>,
    cv: Condvar,
}

thread_local! {
    static TID: std::cell::Cell<i64> = std::cell::Cell::new(0);
}
static ACTIVE: AtomicBool = AtomicBool::new(false);
static CTL: Mutex<Option<Arc<Ctl>>> = Mutex::new(None);

fn ctl() -> Option<Arc<Ctl>> {
    CTL.lock().unwrap().clone()
}

/// called at every hook point and harness yield of a scheduled thread
pub fn yield_point(name: &'static str) {
    if !ACTIVE.load(Ordering::Relaxed) {
        return;
    }
    let tid = TID.with(|t| t.get());
    if tid == 0 || !YIELDS.contains(&name) {
        return;
    }
    let c = match ctl() {
        Some(c) => c,
        None => return,
    };
    let mut g = c.st.lock().unwrap();
    g.last.insert(tid, name);
    if g.free_run {
        return;
    }
    g.parked.insert(tid, name);
    c.cv.notify_all();
    while !g.granted.contains(&tid) && !g.free_run {
        g = c.cv.wait(g).unwrap();
    }
    g.granted.remove(&tid);
    g.parked.remove(&tid);
}

/// events of the run (hook points with the thread that hit them), in the order in which the
/// recorder lock was taken; exact for hooks inside a critical section of the code under test
static TRACE: Mutex<Option<Vec<Value>>> = Mutex::new(None);

fn install() {
    jammdb::verif::set_handler(Some(Arc::new(|name: &'static str, args: &[(&'static str, u64)]| {
        let tid = TID.with(|t| t.get());
        if tid != 0 {
            if let Some(tr) = TRACE.lock().unwrap().as_mut() {
                let mut m = serde_json::Map::new();
                m.insert("ev".into(), json!(name));
                m.insert("tid".into(), json!(tid));
                for (k, v) in args {
                    m.insert((*k).into(), json!((*v).min(2_000_000_000))); // TLC integers are 32-bit
                }
                tr.push(Value::Object(m));
            }
        }
        yield_point(name);
    })));
}

struct Shared {
    db: DB,
    in_write: AtomicI64,
    overlap: AtomicBool,
    completed: AtomicI64, // number of commits that have returned
    nkeys: usize,
    vlen: usize,
    log: Mutex<Vec<Value>>,
}

fn tagval(n: i64, k: usize, len: usize) -> Vec<u8> {
    // the value size changes from commit to commit so that the tree has a different number of
    // pages each time and recycled pages change their role (leaf / branch / other keys)
    let len = [len, len / 3, len * 2, len / 2, len + len / 2][(n % 5) as usize].max(12);
    let mut v = format!("c{:06}k{:03}:", n, k).into_bytes();
    while v.len() < len {
        v.push(b'a' + (n % 26) as u8);
    }
    v
}

/// what a transaction sees: Ok(commit number) if every key carries the same commit tag and
/// the counter agrees, else a description of the mix
fn read_state(tx: &jammdb::Tx, nkeys: usize) -> Result<i64, String> {
    let b = match tx.get_bucket("b") {
        Ok(b) => b,
        Err(_) => return Ok(0), // nothing committed yet
    };
    let mut tags: Vec<i64> = Vec::new();
    let mut count = 0;
    for d in b.cursor() {
        if let Data::KeyValue(kv) = d {
            let v = kv.value();
            if v.len() < 8 || v[0] != b'c' {
                return Err(format!("garbled value for key {:?}", String::from_utf8_lossy(kv.key())));
            }
            let n: i64 = std::str::from_utf8(&v[1..7]).ok().and_then(|s| s.parse().ok()).ok_or("garbled tag")?;
            tags.push(n);
            count += 1;
        }
    }
    if count != nkeys {
        return Err(format!("{} keys visible, {} expected", count, nkeys));
    }
    let first = tags[0];
    if tags.iter().any(|t| *t != first) {
        return Err(format!("mixed commits visible: {:?}", tags));
    }
    Ok(first)
}

fn reader(sh: Arc<Shared>, tid: i64, reads: i64) {
    TID.with(|t| t.set(tid));
    yield_point("h:start");
    let before = sh.completed.load(Ordering::SeqCst);
    let r = std::panic::catch_unwind(std::panic::AssertUnwindSafe(|| {
        let tx = sh.db.tx(false).map_err(|e| format!("tx(false): {}", e))?;
        let mut seen: Vec<Result<i64, String>> = Vec::new();
        for _ in 0..reads {
            seen.push(read_state(&tx, sh.nkeys));
            yield_point("h:read");
        }
        seen.push(read_state(&tx, sh.nkeys));
        drop(tx);
        Ok::<_, String>(seen)
    }));
    yield_point("h:tx_done");
    let ev = match r {
        Ok(Ok(seen)) => {
            let vals: Vec<Value> = seen.iter().map(|s| match s { Ok(n) => json!(n), Err(e) => json!(e) }).collect();
            json!({"tid": tid, "kind": "reader", "before": before, "seen": vals})
        }
        Ok(Err(e)) => json!({"tid": tid, "kind": "reader", "error": e}),
        Err(_) => json!({"tid": tid, "kind": "reader", "panic": crate::exec::LAST_PANIC.with(|p| p.borrow().clone())}),
    };
    sh.log.lock().unwrap().push(ev);
}

fn writer(sh: Arc<Shared>, tid: i64, commits: i64) {
    TID.with(|t| t.set(tid));
    for _ in 0..commits {
        yield_point("h:start");
        let r = std::panic::catch_unwind(std::panic::AssertUnwindSafe(|| -> Result<(i64, i64), String> {
            let tx = sh.db.tx(true).map_err(|e| format!("tx(true): {}", e))?;
            if sh.in_write.fetch_add(1, Ordering::SeqCst) != 0 {
                sh.overlap.store(true, Ordering::SeqCst);
            }
            let base = read_state(&tx, sh.nkeys).map_err(|e| format!("writer saw: {}", e))?;
            let n = base + 1;
            {
                let b = tx.get_or_create_bucket("b").map_err(|e| format!("{}", e))?;
                for k in 0..sh.nkeys {
                    b.put(format!("k{:03}", k).into_bytes(), tagval(n, k, sh.vlen)).map_err(|e| format!("{}", e))?;
                }
            }
            sh.in_write.fetch_sub(1, Ordering::SeqCst);
            tx.commit().map_err(|e| format!("commit: {}", e))?;
            sh.completed.fetch_max(n, Ordering::SeqCst);
            Ok((base, n))
        }));
        yield_point("h:tx_done");
        let ev = match r {
            Ok(Ok((base, n))) => json!({"tid": tid, "kind": "writer", "base": base, "wrote": n}),
            Ok(Err(e)) => json!({"tid": tid, "kind": "writer", "error": e}),
            Err(_) => json!({"tid": tid, "kind": "writer", "panic": crate::exec::LAST_PANIC.with(|p| p.borrow().clone())}),
        };
        sh.log.lock().unwrap().push(ev);
    }
}

struct Plan {
    readers: Vec<i64>,
    writers: Vec<(i64, i64)>,
    reads: i64,
    nkeys: usize,
    vlen: usize,
    pagesize: u64,
    num_pages: usize,
    /// the first commit made by a thread grows the file (otherwise the file is pre-sized)
    grow: bool,
}

/// one controlled run; returns the observations and the list of problems found
fn run_one(plan: &Plan, sched: &[(i64, String)], path: &std::path::Path, random: Option<u64>) -> (Vec<Value>, Vec<String>) {
    let _ = std::fs::remove_file(path);
    let db = match OpenOptions::new().pagesize(plan.pagesize).num_pages(plan.num_pages).open(path) {
        Ok(d) => d,
        Err(e) => return (vec![], vec![format!("open: {}", e)]),
    };
    // the initial state (commit 0): every key present with tag 0, written before any thread starts
    {
        let r = (|| -> Result<(), jammdb::Error> {
            let tx = db.tx(true)?;
            {
                let b = tx.get_or_create_bucket("b")?;
                for k in 0..plan.nkeys {
                    b.put(format!("k{:03}", k).into_bytes(), tagval(0, k, plan.vlen))?;
                }
            }
            tx.commit()
        })();
        if let Err(e) = r {
            return (vec![], vec![format!("initial commit: {}", e)]);
        }
    }
    // cut the file to exactly its high-water mark and reopen, so that the FIRST commit made by a
    // thread has to grow (and re-map) the file while other threads are active
    drop(db);
    if plan.grow {
        let data = std::fs::read(path).unwrap_or_default();
        let ps = plan.pagesize as usize;
        let metas = [data.get(0..ps).and_then(crate::parse::decode_meta), data.get(ps..2 * ps).and_then(crate::parse::decode_meta)];
        if let Some(c) = crate::parse::choose(&metas) {
            let np = metas[c].as_ref().unwrap().num_pages;
            if let Ok(f) = std::fs::OpenOptions::new().write(true).open(path) {
                let _ = f.set_len(np * plan.pagesize);
            }
        }
    }
    let db = match OpenOptions::new().pagesize(plan.pagesize).num_pages(plan.num_pages).open(path) {
        Ok(d) => d,
        Err(e) => return (vec![], vec![format!("reopen: {}", e)]),
    };
    let sh = Arc::new(Shared {
        db,
        in_write: AtomicI64::new(0),
        overlap: AtomicBool::new(false),
        completed: AtomicI64::new(0),
        nkeys: plan.nkeys,
        vlen: plan.vlen,
        log: Mutex::new(Vec::new()),
    });
    if let Some(tr) = TRACE.lock().unwrap().as_mut() {
        // the initial commit made this the current header: tx 1
        tr.push(json!({"ev":"reset","txid":1}));
    }
    let c = Arc::new(Ctl { st: Mutex::new(St::default()), cv: Condvar::new() });
    *CTL.lock().unwrap() = Some(c.clone());
    ACTIVE.store(true, Ordering::SeqCst);
    let mut handles = Vec::new();
    let mut all: Vec<i64> = Vec::new();
    for r in &plan.readers {
        let (s2, c2, tid, reads) = (sh.clone(), c.clone(), *r, plan.reads);
        all.push(tid);
        handles.push(std::thread::spawn(move || {
            reader(s2, tid, reads);
            let mut g = c2.st.lock().unwrap();
            g.finished.insert(tid);
            c2.cv.notify_all();
        }));
    }
    for (w, n) in &plan.writers {
        let (s2, c2, tid, n) = (sh.clone(), c.clone(), *w, *n);
        all.push(tid);
        handles.push(std::thread::spawn(move || {
            writer(s2, tid, n);
            let mut g = c2.st.lock().unwrap();
            g.finished.insert(tid);
            c2.cv.notify_all();
        }));
    }
    let mut problems: Vec<String> = Vec::new();
    let mut blocked_notes: Vec<String> = Vec::new();
    let settle = |c: &Arc<Ctl>, tid: i64, ms: u64| -> bool {
        // wait until `tid` is parked or finished
        let deadline = Instant::now() + Duration::from_millis(ms);
        let mut g = c.st.lock().unwrap();
        loop {
            if g.parked.contains_key(&tid) || g.finished.contains(&tid) {
                return true;
            }
            let now = Instant::now();
            if now >= deadline {
                return false;
            }
            let (g2, _) = c.cv.wait_timeout(g, deadline - now).unwrap();
            g = g2;
        }
    };
    // everybody to the first yield
    for t in &all {
        settle(&c, *t, 2000);
    }
    let mut rng = random.map(StdRng::seed_from_u64);
    let mut steps = 0usize;
    let mut idx = 0usize;
    // random mode = priority scheduling with a few random priority drops (PCT): the runnable thread
    // of highest priority runs; at d random steps the running thread drops below everybody
    let mut prio: HashMap<i64, i64> = HashMap::new();
    let mut drops: Vec<usize> = Vec::new();
    if let Some(r) = rng.as_mut() {
        let mut order: Vec<i64> = all.clone();
        for i in (1..order.len()).rev() {
            order.swap(i, r.gen_range(0..=i));
        }
        for (i, t) in order.iter().enumerate() {
            prio.insert(*t, 100 + i as i64);
        }
        let d = r.gen_range(1..=4);
        for _ in 0..d {
            drops.push(r.gen_range(1..90));
        }
    }
    let mut low = 0i64;
    let mut probed: HashSet<i64> = HashSet::new();
    loop {
        crate::tick();
        // a thread that stays blocked where the model lets it proceed has been waited for (2 s each
        // time): two such observations decide this schedule; the rest would only repeat the wait
        if blocked_notes.len() >= 2 {
            break;
        }
        // next thread to step
        let tid = if let Some(r) = rng.as_mut() {
            let g = c.st.lock().unwrap();
            let cands: Vec<i64> = g.parked.keys().cloned().collect();
            let nfin = g.finished.len();
            drop(g);
            if cands.is_empty() {
                if nfin == all.len() || steps > 4000 {
                    break;
                }
                // everyone alive is inside a lock: give them a moment
                let any = all.iter().any(|t| settle(&c, *t, 50) && c.st.lock().unwrap().parked.contains_key(t));
                if !any {
                    steps += 40;
                }
                continue;
            }
            let _ = r;
            let best = *cands.iter().max_by_key(|t| prio.get(t).cloned().unwrap_or(0)).unwrap();
            if drops.contains(&steps) {
                low -= 1;
                prio.insert(best, low);
            }
            best
        } else {
            if idx >= sched.len() {
                break;
            }
            let t = sched[idx].0;
            idx += 1;
            t
        };
        let target: String = if rng.is_some() || idx == 0 { String::new() } else { sched[idx - 1].1.clone() };
        steps += 1;
        if rng.is_none() {
            // negative probe of the writer lock: the writer that the model lets in next is sent
            // into file.lock() while another write transaction is still open.  It must block
            // there holding nothing, i.e. everybody else keeps making progress (C09).
            let wids: Vec<i64> = plan.writers.iter().map(|(w, _)| *w).collect();
            let g = c.st.lock().unwrap();
            let holder = wids.iter().cloned().find(|w| {
                matches!(g.last.get(w), Some(n) if *n != "h:start" && *n != "h:tx_done") && !g.finished.contains(w)
            });
            drop(g);
            let next_locker = sched[idx - 1..].iter().find(|(t, n)| n == "tx:locked" && wids.contains(t)).map(|(t, _)| *t);
            if let (Some(h), Some(nl)) = (holder, next_locker) {
                let at_start = c.st.lock().unwrap().parked.get(&nl).cloned() == Some("h:start");
                if h != nl && at_start && !probed.contains(&nl) {
                    probed.insert(nl);
                    let mut g = c.st.lock().unwrap();
                    g.granted.insert(nl);
                    g.parked.remove(&nl);
                    c.cv.notify_all();
                }
            }
        }
        let parked_at = c.st.lock().unwrap().parked.get(&tid).cloned();
        if let Some(name) = parked_at {
            if !target.is_empty() && name == target {
                continue; // an earlier (attempt) step already brought it here
            }
        }
        let is_parked = parked_at.is_some();
        if !is_parked {
            // in flight (inside a lock acquisition) or finished: the model says this step is
            // enabled, so it should arrive by itself
            let fin = c.st.lock().unwrap().finished.contains(&tid);
            if !fin && !settle(&c, tid, 80) && !target.is_empty() && !settle(&c, tid, 2000) {
                // the model says this acquisition is enabled, the real thread stays blocked
                blocked_notes.push(format!("blocked although the model says it can proceed: thread {} towards {} (schedule step {})",
                                           tid, target, idx));
            }
            continue;
        }
        // one model step = run the thread to the yield point the model names; yield points in
        // between (hooks the model has no action for) are passed through
        let mut hops = 0;
        loop {
            {
                let mut g = c.st.lock().unwrap();
                g.granted.insert(tid);
                g.parked.remove(&tid);
                c.cv.notify_all();
            }
            // it runs until its next yield; a lock it cannot get keeps it in flight
            if !settle(&c, tid, 25) {
                if target != "in:M.write" && !target.is_empty() && !settle(&c, tid, 2000) {
                    blocked_notes.push(format!("blocked although the model says it can proceed: thread {} granted at {:?} towards {} (schedule step {})",
                                               tid, c.st.lock().unwrap().last.get(&tid), target, idx));
                }
                break;
            }
            hops += 1;
            let g = c.st.lock().unwrap();
            let at = g.parked.get(&tid).cloned();
            drop(g);
            match at {
                None => break, // finished
                Some(name) => {
                    if target.is_empty() || name == target || target == "done" && hops > 6 || hops > 12 {
                        break;
                    }
                    if target == "in:M.write" {
                        break;
                    }
                }
            }
        }
    }
    // the schedule is over: everybody runs freely; they must all finish
    {
        let mut g = c.st.lock().unwrap();
        g.free_run = true;
        c.cv.notify_all();
    }
    let deadline = Instant::now() + Duration::from_secs(10);
    loop {
        let g = c.st.lock().unwrap();
        if g.finished.len() == all.len() {
            break;
        }
        if Instant::now() >= deadline {
            let stuck: Vec<String> = all
                .iter()
                .filter(|t| !g.finished.contains(t))
                .map(|t| format!("{}@{}", t, g.last.get(t).unwrap_or(&"?")))
                .collect();
            problems.push(format!("deadlock: threads never finished: {:?}", stuck));
            drop(g);
            ACTIVE.store(false, Ordering::SeqCst);
            *CTL.lock().unwrap() = None;
            // the threads are lost; leak them (the process is restarted by the driver)
            std::mem::forget(handles);
            let log = sh.log.lock().unwrap().clone();
            return (log, problems);
        }
        let _ = c.cv.wait_timeout(g, Duration::from_millis(50)).unwrap();
    }
    for h in handles {
        let _ = h.join();
    }
    ACTIVE.store(false, Ordering::SeqCst);
    *CTL.lock().unwrap() = None;
    // ---- the oracle ----
    let log = sh.log.lock().unwrap().clone();
    problems.extend(blocked_notes.iter().cloned());
    if sh.overlap.load(Ordering::SeqCst) {
        problems.push("two write transactions were open at the same time".into());
    }
    let total: i64 = plan.writers.iter().map(|(_, n)| *n).sum();
    let mut wrote: Vec<i64> = Vec::new();
    for e in &log {
        if let Some(p) = e.get("panic") {
            problems.push(format!("{} {} panicked: {}", e["kind"], e["tid"], p));
        }
        if let Some(p) = e.get("error") {
            problems.push(format!("{} {}: {}", e["kind"], e["tid"], p));
        }
        if e["kind"] == "writer" {
            if let Some(n) = e["wrote"].as_i64() {
                wrote.push(n);
            }
        }
        if e["kind"] == "reader" {
            if let Some(seen) = e["seen"].as_array() {
                let before = e["before"].as_i64().unwrap_or(0);
                let firstn = seen[0].as_i64();
                for s in seen {
                    match s.as_i64() {
                        None => problems.push(format!("reader {} saw no single committed state: {}", e["tid"], s)),
                        Some(n) => {
                            if Some(n) != firstn {
                                problems.push(format!("reader {} saw its snapshot change: {:?}", e["tid"], seen));
                                break;
                            }
                            if n < before {
                                problems.push(format!("reader {} saw commit {} although commit {} had completed before it began",
                                                      e["tid"], n, before));
                                break;
                            }
                        }
                    }
                }
            }
        }
    }
    wrote.sort();
    let expect: Vec<i64> = (1..=total).collect();
    if problems.is_empty() && wrote != expect {
        problems.push(format!("lost update: commits wrote counters {:?}, expected {:?}", wrote, expect));
    }
    if problems.is_empty() {
        // final state
        match sh.db.tx(false) {
            Ok(tx) => match read_state(&tx, plan.nkeys) {
                Ok(n) if n == total => {}
                other => problems.push(format!("final state {:?}, expected commit {}", other, total)),
            },
            Err(e) => problems.push(format!("final tx: {}", e)),
        }
        if let Err(e) = sh.db.check() {
            problems.push(format!("DB::check: {}", e));
        }
    }
    (log, problems)
}

/// jvh sched-run --schedules F.json --readers R --writers W --commits C --reads N --out O
///               [--random N --seed S] [--skip N] [--num-pages P]
pub fn sched_run(a: &Args) -> i32 {
    install();
    let nr = a.n("readers", 1);
    let nw = a.n("writers", 2);
    let plan = Plan {
        readers: (1..=nr).collect(),
        writers: (0..nw).map(|i| (11 + i, a.n("commits", 2))).collect(),
        reads: a.n("reads", 2),
        nkeys: a.n("nkeys", 8) as usize,
        vlen: a.n("vlen", 180) as usize,
        pagesize: a.n("pagesize", 1024) as u64,
        num_pages: if a.n("grow", 1) != 0 { 4 } else { 4096 },
        grow: a.n("grow", 1) != 0,
    };
    let out = a.s("out", "/dev/stdout");
    let progress = format!("{}.progress", out);
    let skip = a.n("skip", 0) as usize;
    let dir = crate::scratch_dir();
    let path = dir.join("sched.db");
    let mut w = std::io::BufWriter::new(std::fs::File::create(&out).unwrap());
    let mut runs = 0u64;
    let bad = std::cell::Cell::new(0u64);
    let mut sample: Vec<Value> = Vec::new();
    let trace_out = a.s("trace-out", "");
    if !trace_out.is_empty() {
        *TRACE.lock().unwrap() = Some(Vec::new());
    }
    let mut do_run = |idx: usize, sched: &[(i64, String)], random: Option<u64>, w: &mut std::io::BufWriter<std::fs::File>| {
        std::fs::write(&progress, format!("{}", idx)).ok();
        let (log, problems) = run_one(&plan, sched, &path, random);
        runs += 1;
        if sample.len() < 2 {
            sample.push(json!(log));
        }
        if !problems.is_empty() {
            bad.set(bad.get() + 1);
            let deadlock = problems.iter().any(|p| p.starts_with("deadlock"));
            writeln!(w, "{}", json!({"idx": idx, "random": random, "problems": problems, "log": log,
                                      "sched": sched.iter().map(|(t, n)| json!([t, n])).collect::<Vec<_>>()}))
                .unwrap();
            w.flush().unwrap();
            if deadlock {
                // lost threads hold locks: this process cannot go on
                return false;
            }
        }
        true
    };
    let mut alive = true;
    // a verdict needs examples, not every failing schedule: stop after this many
    let max_bad = a.n("max-bad", 8) as u64;
    if a.has("schedules") {
        let all: Value = serde_json::from_str(&std::fs::read_to_string(a.s("schedules", "")).unwrap()).unwrap();
        for (idx, b) in all.as_array().unwrap().iter().enumerate() {
            if idx < skip {
                continue;
            }
            let sched: Vec<(i64, String)> = b["sched"]
                .as_array()
                .unwrap()
                .iter()
                .map(|e| (e[0].as_i64().unwrap(), e[1].as_str().unwrap().to_string()))
                .collect();
            if !do_run(idx, &sched, None, &mut w) {
                alive = false;
                break;
            }
            if bad.get() >= max_bad {
                break;
            }
        }
    }
    if alive && a.has("random") {
        let seed = a.n("seed", 1) as u64;
        for i in 0..a.n("random", 0) as usize {
            if i < skip && !a.has("schedules") {
                continue;
            }
            if bad.get() >= max_bad {
                break;
            }
            if !do_run(1_000_000 + i, &[], Some(seed.wrapping_mul(7919).wrapping_add(i as u64)), &mut w) {
                alive = false;
                break;
            }
        }
    }
    if !trace_out.is_empty() {
        if let Some(tr) = TRACE.lock().unwrap().take() {
            let mut tw = std::io::BufWriter::new(std::fs::File::create(&trace_out).unwrap());
            for e in tr {
                writeln!(tw, "{}", e).unwrap();
            }
            tw.flush().unwrap();
        }
    }
    writeln!(w, "{}", json!({"summary": true, "runs": runs, "bad": bad.get(), "sample": sample, "alive": alive})).unwrap();
    w.flush().unwrap();
    let _ = std::fs::remove_file(&progress);
    if alive {
        let _ = std::fs::remove_dir_all(&dir);
        0
    } else {
        // threads stuck in locks would block a clean exit
        unsafe { libc::_exit(3) }
    }
}
