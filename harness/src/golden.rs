//! C15: files written by the pinned release (golden/) and their legacy-header variants must open
//! under the current code with identical logical contents and accept further commits; a page
//! size different from the file's must be refused without modifying the file.  The copy that is
//! opened is recorded like any other run (seed = independent parse of the golden file, load =
//! its recorded logical content) so that Trace_KV / Trace_Page validate the continuation.

use std::collections::BTreeSet;

use rand::{rngs::StdRng, SeedableRng};
use serde_json::{json, Value};

use crate::{
    exec::{Opts, World},
    iohook, parse,
    profiles::Profile,
    rec, Args, Driver, Rec,
};

pub fn seed_event(path: &std::path::Path, ps: u64, prof: &Profile) -> Value {
    let data = std::fs::read(path).unwrap_or_default();
    let fv = parse::parse_file(&data, ps, prof);
    let metas: Vec<Value> =
        fv.metas.iter().map(|m| m.as_ref().map(|m| m.json()).unwrap_or(json!({"hash_ok": false, "txid": -1}))).collect();
    let pages: Vec<Value> = fv.pages.iter().map(|(id, d)| json!([id, d])).collect();
    json!({"ev":"seed","pagesize":ps,"metas":metas,"chosen":fv.chosen.map(|c| c as i64).unwrap_or(-1),
           "flen": data.len() as u64 / ps, "pages": pages})
}

/// jvh golden --file F.db --expect F.json --out O --trace-out T [--len N --seed S] [--sizes a,b,c]
pub fn golden(a: &Args) -> i32 {
    let file = a.s("file", "");
    let exp: Value = serde_json::from_str(&std::fs::read_to_string(a.s("expect", "")).unwrap()).unwrap();
    let ps = exp["pagesize"].as_u64().unwrap();
    let prof = Profile::new(exp["profile"].as_str().unwrap(), exp["nkeys"].as_u64().unwrap() as usize,
                            exp["nvals"].as_u64().unwrap() as usize);
    let out = a.s("out", "/dev/stdout");
    let dir = crate::scratch_dir();
    let path = dir.join("golden-copy.db");
    std::fs::copy(&file, &path).unwrap();
    let mut problems: Vec<String> = Vec::new();
    rec::start(&a.s("trace-out", "/dev/null"), Some(prof.clone()), ps, true);
    rec::install_hook_recorder();
    iohook::set_target(&path);
    rec::emit(json!({"ev":"hdr","profile":prof.name,"nkeys":prof.keys.len(),"nvals":prof.vals.len(),"golden":file}));
    rec::emit(json!({"ev":"reset","h":0,"pagesize":ps,"np0":0,"golden":true}));
    rec::emit(seed_event(&path, ps, &prof));
    rec::emit(json!({"ev":"load","dump":exp["dump"]}));
    let (h0, l0) = crate::file_hash(&path);
    rec::emit(json!({"ev":"filehash","h":h0,"len":l0,"at":"before-open"}));
    let opts = Opts { pagesize: ps, num_pages: 32, strict: a.n("strict", 0) != 0, populate: false };
    let mut world = World::new(prof.clone(), path.clone(), opts);
    let r = world.open();
    rec::emit(json!({"ev":"opened","h":0,"res":r}));
    if r != json!(["ok"]) {
        problems.push(format!("open: {} {}", r, crate::exec::LAST_PANIC.with(|p| p.borrow().clone())));
    } else {
        let d = world.dump();
        if d != exp["dump"] {
            problems.push(format!("logical content differs from the golden content: {}",
                                  d.to_string().chars().take(300).collect::<String>()));
        }
        let chk = world.check();
        rec::emit(json!({"ev":"check","res":chk}));
        if chk != json!(["ok"]) {
            problems.push(format!("DB::check on the golden file: {}", chk));
        }
        let (h1, l1) = crate::file_hash(&path);
        rec::emit(json!({"ev":"filehash","h":h1,"len":l1,"at":"after-open-and-read"}));
        // further commits: a seeded random history on top of the golden content
        let mut rr = Rec {};
        let mut d = Driver {
            rng: StdRng::seed_from_u64(a.n("seed", 1) as u64),
            world,
            rec: &mut rr,
            nk: prof.keys.len() as i64,
            nv: prof.vals.len() as i64,
            maxdepth: 4,
            buckets: BTreeSet::new(),
            writer: None,
            readers: Vec::new(),
            next_t: 1,
            readback: false,
            presized: false,
            commits: 0,
            states: false,
            max_readers: 1,
            reader_churn: 0,
            ladder_n: 0,
            ro_mut_pct: 30,
            hashes: false,
            p_rollback: 6,
        };
        if let Some(rt) = d.begin(false) {
            d.resync(rt);
            d.end(rt, false);
        }
        d.run(a.n("len", 40) as usize);
        let Driver { mut world, .. } = d;
        rec::emit(json!({"ev":"closing"}));
        world.close();
        rec::emit(json!({"ev":"closed"}));
        crate::emit_parse(&world.path, ps, &prof);
    }
    rec::finish();
    iohook::deactivate();
    // a page size different from the file's: refused, file untouched
    let mut mismatch: Vec<Value> = Vec::new();
    for s in a.s("sizes", "1024,1032,2048,3000,4096,5000,16384,65536").split(',') {
        let other: u64 = s.parse().unwrap();
        if other == ps {
            continue;
        }
        std::fs::copy(&file, &path).unwrap();
        let (hb, lb) = crate::file_hash(&path);
        let opts = Opts { pagesize: other, num_pages: 32, strict: false, populate: false };
        let mut w2 = World::new(prof.clone(), path.clone(), opts);
        let r = w2.open();
        let outcome = if r == json!(["ok"]) {
            // it must not pretend to be a database of that page size
            let d = w2.dump();
            problems.push(format!("open with page size {} succeeded on a file of page size {} (content {})", other, ps,
                                  d.to_string().chars().take(80).collect::<String>()));
            "opened"
        } else if r[0] == "panic" {
            "refused (documented panic)"
        } else {
            "refused (error)"
        };
        w2.close();
        drop(w2);
        let (ha, la) = crate::file_hash(&path);
        if (ha.clone(), la) != (hb, lb) {
            problems.push(format!("opening with page size {} modified the file (length {} -> {})", other, lb, la));
        }
        mismatch.push(json!([other, outcome]));
    }
    std::fs::write(&out, json!({"file": file, "problems": problems, "mismatch": mismatch}).to_string()).unwrap();
    let _ = std::fs::remove_dir_all(&dir);
    0
}
