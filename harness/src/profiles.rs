//! Profiles: concrete byte strings for abstract key / value ids, chosen so that the same
//! abstract history lands on different tree shapes.  The id order of keys is the byte order.

use std::collections::HashMap;

#[derive(Clone, Debug)]
pub struct Profile {
    pub name: String,
    pub pagesize: u64,
    pub keys: Vec<Vec<u8>>,
    pub vals: Vec<Vec<u8>>,
    kmap: HashMap<Vec<u8>, i64>,
    vmap: HashMap<Vec<u8>, i64>,
}

pub const PROFILE_NAMES: &[&str] = &[
    "flat", "two", "three", "overflow", "longkey", "empty", "hibytes", "huge",
];

fn padded(prefix: String, len: usize, fill: u8) -> Vec<u8> {
    let mut v = prefix.into_bytes();
    while v.len() < len {
        v.push(fill);
    }
    v
}

impl Profile {
    pub fn new(name: &str, nkeys: usize, nvals: usize) -> Profile {
        let mut pagesize = 1024u64;
        let mut keys: Vec<Vec<u8>> = Vec::new();
        let mut vals: Vec<Vec<u8>> = Vec::new();
        match name {
            "flat" => {
                pagesize = 4096;
                for i in 0..nkeys {
                    keys.push(format!("k{:03}", i).into_bytes());
                }
                for v in 0..nvals {
                    vals.push(format!("v{}", v).into_bytes());
                }
            }
            "two" => {
                // 1 KiB pages, 200-byte values: about 2-4 entries per leaf
                for i in 0..nkeys {
                    keys.push(format!("k{:04}", i).into_bytes());
                }
                for v in 0..nvals {
                    vals.push(padded(format!("v{}:", v), 200 + (v % 3) * 40, b'a' + (v % 26) as u8));
                }
            }
            "three" => {
                // 300-byte keys: branch fan-out 3-4, three levels with ~14 keys
                for i in 0..nkeys {
                    keys.push(padded(format!("k{:04}", i), 300, b'K'));
                }
                for v in 0..nvals {
                    vals.push(padded(format!("v{}:", v), 60 + (v % 4) * 50, b'a' + (v % 26) as u8));
                }
            }
            "overflow" => {
                for i in 0..nkeys {
                    keys.push(format!("k{:04}", i).into_bytes());
                }
                let sizes = [10usize, 3000, 1500, 9000, 100, 5000];
                for v in 0..nvals {
                    vals.push(padded(format!("v{}:", v), sizes[v % sizes.len()], b'a' + (v % 26) as u8));
                }
            }
            "longkey" => {
                // keys longer than a page, differing only at the end
                for i in 0..nkeys {
                    let mut k = vec![b'L'; 1100 + (i % 3) * 200];
                    let tag = format!("{:04}", i).into_bytes();
                    k[0..4].copy_from_slice(&tag);
                    keys.push(k);
                }
                for v in 0..nvals {
                    vals.push(padded(format!("v{}:", v), 20 + (v % 2) * 700, b'z'));
                }
            }
            "huge" => {
                // values of several MiB: one transaction needs more than one 8 MiB extension
                pagesize = 4096;
                for i in 0..nkeys {
                    keys.push(format!("k{:04}", i).into_bytes());
                }
                let sizes = [2_600_000usize, 10, 3_200_000, 700_000];
                for v in 0..nvals {
                    vals.push(padded(format!("v{}:", v), sizes[v % sizes.len()], b'a' + (v % 26) as u8));
                }
            }
            "empty" => {
                // the empty key and the empty value are present
                keys.push(Vec::new());
                for i in 1..nkeys {
                    keys.push(format!("k{:04}", i).into_bytes());
                }
                vals.push(Vec::new());
                for v in 1..nvals {
                    vals.push(padded(format!("v{}:", v), 150, b'e'));
                }
            }
            "hibytes" => {
                // bytes >= 0x80, prefix pairs, embedded zeros: order must be unsigned lexicographic
                let base: Vec<Vec<u8>> = vec![
                    vec![0x00],
                    vec![0x00, 0x00],
                    vec![0x00, 0xff],
                    vec![0x01],
                    vec![0x7f],
                    vec![0x7f, 0x80],
                    vec![0x80],
                    vec![0x80, 0x00],
                    vec![0x80, 0x7f],
                    vec![0xfe, 0xff, 0xff],
                    vec![0xff],
                    vec![0xff, 0x00],
                    vec![0xff, 0xff],
                    vec![0xff, 0xff, 0xff],
                ];
                for i in 0..nkeys {
                    if i < base.len() {
                        keys.push(base[i].clone());
                    } else {
                        let mut k = vec![0xff, 0xff, 0xff, 0xff];
                        k.extend(format!("{:04}", i).into_bytes());
                        keys.push(k);
                    }
                }
                for v in 0..nvals {
                    vals.push(padded(format!("v{}:", v), 120 + (v % 3) * 100, 0x80 + (v % 100) as u8));
                }
            }
            "bt" => {
                // BTree.tla's uniform elements: 179-byte keys, 16-byte values (the size of a nested bucket's entry)
                // (leaf element 32 + 179 + 16 = 227 bytes, branch element 24 + 179 = 203 bytes)
                for i in 0..nkeys {
                    keys.push(padded(format!("k{:04}", i), 179, b'K'));
                }
                for v in 0..nvals {
                    vals.push(vec![b'0' + (v % 70) as u8; 16]);
                }
            }
            _ => panic!("unknown profile {}", name),
        }
        for w in keys.windows(2) {
            assert!(w[0] < w[1], "profile {}: keys not strictly ascending", name);
        }
        let kmap = keys.iter().enumerate().map(|(i, k)| (k.clone(), i as i64)).collect();
        let vmap = vals.iter().enumerate().map(|(i, v)| (v.clone(), i as i64)).collect();
        Profile { name: name.to_string(), pagesize, keys, vals, kmap, vmap }
    }

    pub fn key(&self, id: i64) -> Vec<u8> {
        self.keys[id as usize].clone()
    }
    pub fn val(&self, id: i64) -> Vec<u8> {
        self.vals[id as usize].clone()
    }
    pub fn key_id(&self, b: &[u8]) -> i64 {
        *self.kmap.get(b).unwrap_or(&-1)
    }
    pub fn val_id(&self, b: &[u8]) -> i64 {
        *self.vmap.get(b).unwrap_or(&-1)
    }
}
