//! Crash images (C02): abstract recipes from Gen_Crash (which recorded writes reached the
//! disk, which of them torn) are turned into concrete file images -- sector-granular tears of
//! data writes, word-granular tears of header writes -- and reopened with the real code.
//! Outcome required: open succeeds, the logical content equals the recorded state of one of
//! the commits the specification allows, DB::check agrees, a further commit works.

use std::{
    collections::HashMap,
    io::{BufRead, BufReader, Write},
    path::Path,
};

use serde_json::{json, Value};

use crate::{
    exec::{Opts, World},
    profiles::Profile,
    Args,
};

pub struct RawWrite {
    pub off: u64,
    pub data: Vec<u8>,
}

/// raw side file -> per history, writes in order of their index
pub fn load_raw(path: &str) -> Vec<Vec<RawWrite>> {
    let b = std::fs::read(path).expect("raw file");
    let mut out: Vec<Vec<RawWrite>> = Vec::new();
    let mut p = 0usize;
    while p + 24 <= b.len() {
        let wi = u64::from_le_bytes(b[p..p + 8].try_into().unwrap());
        let off = u64::from_le_bytes(b[p + 8..p + 16].try_into().unwrap());
        let len = u64::from_le_bytes(b[p + 16..p + 24].try_into().unwrap()) as usize;
        p += 24;
        let data = b[p..p + len].to_vec();
        p += len;
        if wi == 0 {
            out.push(Vec::new());
        }
        out.last_mut().unwrap().push(RawWrite { off, data });
    }
    out
}

#[derive(Default)]
pub struct HistInfo {
    pub pagesize: u64,
    pub states: HashMap<i64, Value>,
    pub flen: HashMap<u64, u64>, // wi -> file length in bytes after that write
    pub np0: u64,
}

pub fn load_trace(path: &str) -> Vec<HistInfo> {
    let rd = BufReader::new(std::fs::File::open(path).expect("trace"));
    let mut out: Vec<HistInfo> = Vec::new();
    for line in rd.lines() {
        let line = line.unwrap();
        if !(line.contains("\"ev\":\"reset\"") || line.contains("\"ev\":\"state\"") || line.contains("\"ev\":\"write\"")) {
            continue;
        }
        let e: Value = match serde_json::from_str(&line) {
            Ok(v) => v,
            Err(_) => continue,
        };
        match e["ev"].as_str().unwrap_or("") {
            "reset" => {
                let mut h = HistInfo::default();
                h.pagesize = e["pagesize"].as_u64().unwrap_or(1024);
                h.np0 = e["np0"].as_u64().unwrap_or(32);
                out.push(h);
            }
            "state" => {
                if let Some(h) = out.last_mut() {
                    h.states.insert(e["k"].as_i64().unwrap(), e["dump"].clone());
                }
            }
            "write" => {
                if let Some(h) = out.last_mut() {
                    h.flen.insert(e["wi"].as_u64().unwrap(), e["flenb"].as_u64().unwrap_or(0));
                }
            }
            _ => {}
        }
    }
    out
}

/// which bytes of a torn write reach the file: list of (start, end) ranges of new bytes
fn tear_variants(w: &RawWrite, old: &[u8], pagesize: u64, many: bool) -> Vec<(String, Vec<(usize, usize)>)> {
    let len = w.data.len();
    let mut v: Vec<(String, Vec<(usize, usize)>)> = Vec::new();
    let is_header = w.off < 2 * pagesize && w.off % pagesize == 0 && len as u64 <= pagesize;
    if is_header {
        // 8-byte words; only the record (first 104 bytes) differs between two headers
        let nwords = (len.min(104) + 7) / 8;
        let changed: Vec<usize> =
            (0..nwords).filter(|i| w.data[i * 8..(i * 8 + 8).min(len)] != old[i * 8..(i * 8 + 8).min(len)]).collect();
        for j in 1..nwords {
            v.push((format!("hdr-prefix-{}w", j), vec![(0, j * 8)]));
        }
        if changed.len() <= 7 && many {
            let c = changed.len();
            for mask in 1..((1u32 << c) - 1) {
                let mut r = Vec::new();
                for (bit, wd) in changed.iter().enumerate() {
                    if mask & (1 << bit) != 0 {
                        r.push((wd * 8, wd * 8 + 8));
                    }
                }
                v.push((format!("hdr-words-{:b}", mask), r));
            }
        } else {
            for wd in &changed {
                v.push((format!("hdr-only-word-{}", wd), vec![(wd * 8, wd * 8 + 8)]));
                let mut r = Vec::new();
                for o in &changed {
                    if o != wd {
                        r.push((o * 8, o * 8 + 8));
                    }
                }
                v.push((format!("hdr-all-but-word-{}", wd), r));
            }
        }
        return v;
    }
    let ns = (len + 511) / 512;
    if ns <= 1 {
        // a write within one sector is atomic at sector granularity; cut it at word granularity
        // only for a killed process (handled by the caller through "kill" prefixes)
        v.push(("half".into(), vec![(0, (len / 2) & !7)]));
        return v;
    }
    let picks: Vec<usize> = if ns <= 8 || many { (1..ns).collect() } else { vec![1, ns / 2, ns - 1] };
    for j in &picks {
        v.push((format!("prefix-{}s", j), vec![(0, (j * 512).min(len))]));
    }
    for j in &picks {
        v.push((format!("suffix-from-{}s", j), vec![((j * 512).min(len), len)]));
    }
    if ns <= 8 {
        for j in 0..ns {
            let mut r = Vec::new();
            if j > 0 {
                r.push((0, j * 512));
            }
            if (j + 1) * 512 < len {
                r.push(((j + 1) * 512, len));
            }
            v.push((format!("all-but-sector-{}", j), r));
        }
    }
    v
}

fn apply(img: &mut Vec<u8>, w: &RawWrite, ranges: Option<&[(usize, usize)]>) {
    let end = w.off as usize + w.data.len();
    if img.len() < end {
        img.resize(end, 0);
    }
    match ranges {
        None => img[w.off as usize..end].copy_from_slice(&w.data),
        Some(rs) => {
            for (a, b) in rs {
                img[w.off as usize + a..w.off as usize + b].copy_from_slice(&w.data[*a..*b]);
            }
        }
    }
}

struct Outcome {
    ok: bool,
    what: String,
    matched: i64,
}

fn examine(world: &mut World, states: &HashMap<i64, Value>, expect: &[i64], probe: bool) -> Outcome {
    let r = world.open();
    if r != json!(["ok"]) {
        return Outcome { ok: false, what: format!("open: {}", r), matched: -1 };
    }
    let d = world.dump();
    let mut matched = -1;
    for (k, s) in states.iter() {
        if *s == d {
            if matched < 0 || expect.contains(k) {
                matched = *k;
            }
        }
    }
    let mut out = Outcome { ok: true, what: String::new(), matched };
    if !expect.contains(&matched) {
        out.ok = false;
        out.what = if matched >= 0 {
            format!("recovered the state of commit {} but only {:?} allowed", matched, expect)
        } else {
            format!("recovered content matches no committed state: {}", d.to_string().chars().take(300).collect::<String>())
        };
        world.close();
        return out;
    }
    let c = world.check();
    if c != json!(["ok"]) {
        out.ok = false;
        out.what = format!("DB::check: {}", c);
        world.close();
        return out;
    }
    if probe {
        // the database keeps accepting transactions that commit and read back
        let t = 900;
        let key = (world.prof.keys.len() - 1) as i64;
        let steps = [
            json!({"c":"gocb","p":[],"k":key}),
            json!({"c":"put","p":[key],"k":key,"v":0}),
        ];
        let b = world.begin(t, true);
        let mut good = b == json!(["ok"]);
        if good {
            for s in steps.iter() {
                let r = world.op(t, s);
                if r[0] == "err" || r[0] == "panic" {
                    good = false;
                    out.what = format!("follow-up op {}: {}", s, r);
                }
            }
            let c = world.commit(t);
            if c != json!(["ok"]) {
                good = false;
                out.what = format!("follow-up commit: {}", c);
            }
        } else {
            out.what = format!("follow-up begin: {}", b);
        }
        if good {
            world.close();
            let r = world.open();
            let t2 = 901;
            if r == json!(["ok"]) && world.begin(t2, false) == json!(["ok"]) {
                let g = world.op(t2, &json!({"c":"get","p":[key],"k":key}));
                if g != json!(["kv", key, 0]) {
                    good = false;
                    out.what = format!("follow-up read-back: {}", g);
                }
                let c = world.check();
                if c != json!(["ok"]) {
                    good = false;
                    out.what = format!("DB::check after follow-up: {}", c);
                }
            } else {
                good = false;
                out.what = format!("reopen after follow-up: {}", r);
            }
        }
        out.ok = good;
    }
    world.close();
    out
}

/// jvh crash-run --trace T --raw R --recipes F --profile P --nkeys K --nvals V --out O [--skip N]
pub fn crash_run(a: &Args) -> i32 {
    let raws = load_raw(&a.s("raw", ""));
    let hists = load_trace(&a.s("trace", ""));
    let prof = Profile::new(&a.s("profile", "two"), a.n("nkeys", 12) as usize, a.n("nvals", 4) as usize);
    let out = a.s("out", "/dev/stdout");
    let progress = format!("{}.progress", out);
    let skip = a.n("skip", 0);
    let stride = a.n("stride", 1).max(1);
    let many = a.n("many", 0) != 0;
    let dir = crate::scratch_dir();
    let mut w = std::io::BufWriter::new(std::fs::File::create(&out).unwrap());
    let rd = BufReader::new(std::fs::File::open(a.s("recipes", "")).unwrap());
    let mut images = 0u64;
    let mut recipes = 0u64;
    let mut bad = 0u64;
    let mut outcomes: HashMap<String, u64> = HashMap::new();
    for (idx, line) in rd.lines().enumerate() {
        let line = line.unwrap();
        if (idx as i64) < skip || (idx as i64 - skip) % stride != 0 || line.trim().is_empty() {
            continue;
        }
        std::fs::write(&progress, format!("{}", idx)).ok();
        crate::tick();
        let r: Value = serde_json::from_str(&line).expect("recipe");
        let h = r["h"].as_i64().unwrap_or(0) as usize;
        if h >= raws.len() || h >= hists.len() {
            continue;
        }
        recipes += 1;
        let hw = &raws[h];
        let hi = &hists[h];
        let pos = r["pos"].as_i64().unwrap_or(-1);
        let base = r["base"].as_i64().unwrap_or(0).max(0) as usize;
        let s: Vec<usize> = r["S"].as_array().unwrap().iter().map(|x| x.as_u64().unwrap() as usize).collect();
        let t: Vec<usize> = r["T"].as_array().unwrap().iter().map(|x| x.as_u64().unwrap() as usize).collect();
        let expect: Vec<i64> = r["expect"].as_array().unwrap().iter().map(|x| x.as_i64().unwrap()).collect();
        let kind = r["kind"].as_str().unwrap_or("");
        // the synced part
        let mut img: Vec<u8> = Vec::new();
        for wr in hw.iter().take(base.min(hw.len())) {
            apply(&mut img, wr, None);
        }
        // file length: what it was at the crash position (fallocate precedes the writes)
        let flen = if pos >= 0 { *hi.flen.get(&(pos as u64)).unwrap_or(&0) } else { 0 } as usize;
        let want = flen.max((hi.np0 * hi.pagesize) as usize);
        if img.len() < want {
            img.resize(want, 0);
        }
        // the chosen unsynced writes, in order; torn ones in every concrete variant
        let mut variants: Vec<(String, Vec<u8>)> = vec![(String::new(), img)];
        for wi in s.iter() {
            if *wi >= hw.len() {
                continue;
            }
            let wr = &hw[*wi];
            if t.contains(wi) {
                let mut next: Vec<(String, Vec<u8>)> = Vec::new();
                for (name, im) in variants.iter() {
                    let end = wr.off as usize + wr.data.len();
                    let mut old = im.clone();
                    if old.len() < end {
                        old.resize(end, 0);
                    }
                    let oldslice = old[wr.off as usize..end].to_vec();
                    let mut tv = tear_variants(wr, &oldslice, hi.pagesize, many && t.len() == 1);
                    if kind == "kill" {
                        // a killed process: a prefix of the call's bytes reached the page cache
                        tv.retain(|(n, _)| n.contains("prefix") || n == "half");
                    }
                    if t.len() > 1 && tv.len() > 2 {
                        let m = tv.len() / 2;
                        tv = vec![tv[0].clone(), tv[m].clone()];
                    }
                    for (tn, ranges) in tv {
                        let mut im2 = old.clone();
                        apply(&mut im2, wr, Some(&ranges));
                        next.push((format!("{}{}@{} ", name, tn, wi), im2));
                    }
                }
                variants = next;
            } else {
                for (_, im) in variants.iter_mut() {
                    apply(im, wr, None);
                }
            }
        }
        for (vi, (vname, im)) in variants.iter().enumerate() {
            images += 1;
            let path = dir.join("crash.db");
            std::fs::write(&path, im).unwrap();
            let opts = Opts { pagesize: hi.pagesize, num_pages: 32, strict: false, populate: false };
            let mut world = World::new(prof.clone(), path.clone(), opts);
            let o = examine(&mut world, &hi.states, &expect, vi == 0);
            drop(world);
            let key = if o.ok { format!("recovered-{}", if expect.len() > 1 && o.matched == expect[0] { "pre" } else { "post" }) } else { "BAD".into() };
            *outcomes.entry(key).or_insert(0) += 1;
            if !o.ok {
                bad += 1;
                if bad <= 200 {
                    writeln!(w, "{}", json!({"line": idx, "recipe": r, "variant": vname, "what": o.what,
                                              "matched": o.matched, "panic": crate::exec::LAST_PANIC.with(|p| p.borrow().clone())}))
                        .unwrap();
                }
            }
        }
    }
    writeln!(w, "{}", json!({"summary": true, "recipes": recipes, "images": images, "bad": bad, "outcomes": outcomes})).unwrap();
    w.flush().unwrap();
    let _ = std::fs::remove_dir_all(&dir);
    let _ = std::fs::remove_file(&progress);
    0
}

#[allow(dead_code)]
pub fn exists(p: &Path) -> bool {
    p.exists()
}

// ------------------------------------------------------------------------------------------
// header damage (C12)
// ------------------------------------------------------------------------------------------

/// hashed bytes of the header record and the page-type byte: damage there must make the
/// header unusable; anywhere else the pinned layout neither hashes nor reads the byte
fn significant(off: usize) -> bool {
    off == 8 || (32..44).contains(&off) || (48..104).contains(&off)
}

/// jvh damage-run --trace T --raw R --recipes F --profile P --nkeys K --nvals V --out O
///                [--stride N --skip J] [--masks 1,128,255] [--random N] [--seed S]
pub fn damage_run(a: &Args) -> i32 {
    use rand::{rngs::StdRng, Rng, SeedableRng};
    let raws = load_raw(&a.s("raw", ""));
    let hists = load_trace(&a.s("trace", ""));
    let prof = Profile::new(&a.s("profile", "two"), a.n("nkeys", 12) as usize, a.n("nvals", 4) as usize);
    let out = a.s("out", "/dev/stdout");
    let progress = format!("{}.progress", out);
    let skip = a.n("skip", 0);
    let stride = a.n("stride", 1).max(1);
    let nrandom = a.n("random", 50);
    let bstride = a.n("byte-stride", 1).max(1) as usize;
    let mut rng = StdRng::seed_from_u64(a.n("seed", 1) as u64);
    let masks: Vec<u8> = a.s("masks", "1,128,255").split(',').map(|x| x.parse::<u16>().unwrap() as u8).collect();
    let dir = crate::scratch_dir();
    let mut w = std::io::BufWriter::new(std::fs::File::create(&out).unwrap());
    let rd = BufReader::new(std::fs::File::open(a.s("recipes", "")).unwrap());
    let mut images = 0u64;
    let mut recipes = 0u64;
    let mut bad = 0u64;
    let mut outcomes: HashMap<String, u64> = HashMap::new();
    for (idx, line) in rd.lines().enumerate() {
        let line = line.unwrap();
        if (idx as i64) < skip || (idx as i64 - skip) % stride != 0 || line.trim().is_empty() {
            continue;
        }
        let r: Value = serde_json::from_str(&line).expect("recipe");
        let h = r["h"].as_i64().unwrap_or(0) as usize;
        if h >= raws.len() || h >= hists.len() {
            continue;
        }
        recipes += 1;
        let hw = &raws[h];
        let hi = &hists[h];
        let ps = hi.pagesize as usize;
        let upto = r["upto"].as_i64().unwrap_or(0).max(0) as usize;
        let slot = r["slot"].as_i64().unwrap_or(0) as usize;
        let expect = r["expect"].as_i64().unwrap_or(0);
        let own = r["damaged_commit"].as_i64().unwrap_or(0);
        let mut img: Vec<u8> = Vec::new();
        for wr in hw.iter().take(upto.min(hw.len())) {
            apply(&mut img, wr, None);
        }
        let flen = if upto > 0 { *hi.flen.get(&((upto - 1) as u64)).unwrap_or(&0) } else { 0 } as usize;
        let want = flen.max((hi.np0 * hi.pagesize) as usize);
        if img.len() < want {
            img.resize(want, 0);
        }
        let base = slot * ps;
        // the damage patterns: (name, significant?, image)
        let mut pats: Vec<(String, bool, Vec<(usize, u8)>)> = Vec::new();
        let mut off = 0;
        while off < ps {
            for m in &masks {
                pats.push((format!("byte{}^{:#x}", off, m), significant(off), vec![(off, img[base + off] ^ m)]));
            }
            off += if off < 112 { 1 } else { bstride };
        }
        pats.push(("zero-page".into(), true, (0..ps).map(|o| (o, 0u8)).collect()));
        pats.push(("zero-record".into(), true, (32..104).map(|o| (o, 0u8)).collect()));
        pats.push(("ones-page".into(), true, (0..ps).map(|o| (o, 0xffu8)).collect()));
        for i in 0..nrandom {
            let start = rng.gen_range(0..ps);
            let len = rng.gen_range(1..=(ps - start).min(64));
            let bytes: Vec<(usize, u8)> = (start..start + len).map(|o| (o, rng.gen::<u8>())).collect();
            let sig = bytes.iter().any(|(o, b)| significant(*o) && img[base + *o] != *b);
            pats.push((format!("random{}@{}+{}", i, start, len), sig, bytes));
        }
        for (pi, (pname, sig, bytes)) in pats.iter().enumerate() {
            std::fs::write(&progress, format!("{} {}", idx, pi)).ok();
            crate::tick();
            let mut im = img.clone();
            let mut changed = false;
            for (o, b) in bytes {
                if im[base + o] != *b {
                    changed = true;
                }
                im[base + o] = *b;
            }
            if !changed {
                continue;
            }
            images += 1;
            let path = dir.join("damage.db");
            std::fs::write(&path, &im).unwrap();
            let opts = Opts { pagesize: hi.pagesize, num_pages: 32, strict: false, populate: false };
            let mut world = World::new(prof.clone(), path.clone(), opts);
            // a significant change must fall back to the other header; elsewhere the layout
            // cannot tell that anything happened: either header's commit is a correct outcome
            let allowed: Vec<i64> = if *sig { vec![expect] } else { vec![expect, own] };
            let o = examine(&mut world, &hi.states, &allowed, pi % 97 == 0);
            drop(world);
            let key = if o.ok { format!("{}-recovered", if *sig { "fallback" } else { "benign" }) } else { "BAD".into() };
            *outcomes.entry(key).or_insert(0) += 1;
            if !o.ok {
                bad += 1;
                if bad <= 300 {
                    writeln!(w, "{}", json!({"line": idx, "recipe": r, "pattern": pname, "significant": sig, "what": o.what,
                                              "matched": o.matched,
                                              "panic": crate::exec::LAST_PANIC.with(|p| p.borrow().clone())}))
                        .unwrap();
                }
            }
        }
    }
    writeln!(w, "{}", json!({"summary": true, "recipes": recipes, "images": images, "bad": bad, "outcomes": outcomes})).unwrap();
    w.flush().unwrap();
    let _ = std::fs::remove_dir_all(&dir);
    let _ = std::fs::remove_file(&progress);
    0
}
