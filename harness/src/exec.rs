//! Executes abstract operations through jammdb's public API only and projects every
//! result into the vocabulary of the L0 specification (tagged JSON arrays).

use std::{
    cell::RefCell,
    collections::BTreeMap,
    ops::Bound,
    panic::{catch_unwind, AssertUnwindSafe},
    path::PathBuf,
};

use jammdb::{Bucket, Data, Error, OpenOptions, ToBuckets, ToKVPairs, Tx, DB};
use serde_json::{json, Value};

use crate::profiles::Profile;

thread_local! {
    pub static LAST_PANIC: RefCell<String> = RefCell::new(String::new());
}

pub fn install_quiet_panic_hook() {
    std::panic::set_hook(Box::new(|info| {
        let msg = format!("{}", info);
        LAST_PANIC.with(|p| *p.borrow_mut() = msg);
    }));
}

#[derive(Clone, Debug)]
pub struct Opts {
    pub pagesize: u64,
    pub num_pages: usize,
    pub strict: bool,
    pub populate: bool,
}

pub struct World {
    pub prof: Profile,
    pub path: PathBuf,
    pub opts: Opts,
    txs: BTreeMap<i64, Tx<'static>>,
    db: Option<*mut DB>,
}

pub fn err_name(e: &Error) -> &'static str {
    match e {
        Error::BucketExists => "BucketExists",
        Error::BucketMissing => "BucketMissing",
        Error::KeyValueMissing => "KeyValueMissing",
        Error::IncompatibleValue => "IncompatibleValue",
        Error::ReadOnlyTx => "ReadOnlyTx",
        Error::Io(_) => "Io",
        Error::Sync(_) => "Sync",
        Error::InvalidDB(_) => "InvalidDB",
        Error::Alloc(_) => "Alloc",
    }
}

fn rerr(e: &Error) -> Value {
    json!(["err", err_name(e)])
}

fn bound<'a>(kind: &str, key: &'a [u8]) -> Bound<&'a [u8]> {
    match kind {
        "I" => Bound::Included(key),
        "E" => Bound::Excluded(key),
        _ => Bound::Unbounded,
    }
}

impl World {
    pub fn new(prof: Profile, path: PathBuf, opts: Opts) -> World {
        World { prof, path, opts, txs: BTreeMap::new(), db: None }
    }

    pub fn db(&self) -> Option<&'static DB> {
        self.db.map(|p| unsafe { &*p })
    }

    pub fn open(&mut self) -> Value {
        if self.db.is_some() {
            return json!(["err", "AlreadyOpen"]);
        }
        let o = self.opts.clone();
        let path = self.path.clone();
        let r = catch_unwind(AssertUnwindSafe(|| {
            OpenOptions::new()
                .pagesize(o.pagesize)
                .num_pages(o.num_pages)
                .strict_mode(o.strict)
                .mmap_populate(o.populate)
                .open(&path)
        }));
        match r {
            Ok(Ok(db)) => {
                self.db = Some(Box::into_raw(Box::new(db)));
                json!(["ok"])
            }
            Ok(Err(e)) => rerr(&e),
            Err(_) => json!(["panic"]),
        }
    }

    pub fn close(&mut self) -> Value {
        self.txs.clear();
        if let Some(p) = self.db.take() {
            let r = catch_unwind(AssertUnwindSafe(|| unsafe { drop(Box::from_raw(p)) }));
            if r.is_err() {
                return json!(["panic"]);
            }
        }
        json!(["ok"])
    }

    pub fn has_tx(&self, t: i64) -> bool {
        self.txs.contains_key(&t)
    }

    pub fn begin(&mut self, t: i64, w: bool) -> Value {
        let db = match self.db() {
            Some(d) => d,
            None => return json!(["err", "Closed"]),
        };
        match catch_unwind(AssertUnwindSafe(|| db.tx(w))) {
            Ok(Ok(tx)) => {
                self.txs.insert(t, tx);
                json!(["ok"])
            }
            Ok(Err(e)) => rerr(&e),
            Err(_) => json!(["panic"]),
        }
    }

    pub fn commit(&mut self, t: i64) -> Value {
        let tx = match self.txs.remove(&t) {
            Some(tx) => tx,
            None => return json!(["err", "NoTx"]),
        };
        match catch_unwind(AssertUnwindSafe(move || tx.commit())) {
            Ok(Ok(())) => json!(["ok"]),
            Ok(Err(e)) => rerr(&e),
            Err(_) => json!(["panic"]),
        }
    }

    pub fn drop_tx(&mut self, t: i64) -> Value {
        match self.txs.remove(&t) {
            Some(tx) => match catch_unwind(AssertUnwindSafe(move || drop(tx))) {
                Ok(()) => json!(["ok"]),
                Err(_) => json!(["panic"]),
            },
            None => json!(["err", "NoTx"]),
        }
    }

    pub fn check(&self) -> Value {
        let db = match self.db() {
            Some(d) => d,
            None => return json!(["err", "Closed"]),
        };
        match catch_unwind(AssertUnwindSafe(|| db.check())) {
            Ok(Ok(())) => json!(["ok"]),
            Ok(Err(e)) => json!(["err", err_name(&e), format!("{}", e)]),
            Err(_) => json!(["panic"]),
        }
    }

    /// The whole logical content visible to a fresh read-only transaction, in canonical order:
    /// [[path, "v", value id] | [path, "b", counter]].  ["panic"] / ["err", ..] if it cannot be read.
    pub fn dump(&self) -> Value {
        let db = match self.db() {
            Some(d) => d,
            None => return json!(["err", "Closed"]),
        };
        let r = catch_unwind(AssertUnwindSafe(|| -> Result<Value, Error> {
            let tx = db.tx(false)?;
            let mut out: Vec<Value> = Vec::new();
            let mut names: Vec<Vec<u8>> = tx.buckets().map(|(n, _)| n.name().to_vec()).collect();
            names.sort();
            for n in names {
                let b = tx.get_bucket(n.clone())?;
                self.dump_bucket(&b, vec![self.prof.key_id(&n)], &mut out)?;
            }
            Ok(Value::Array(out))
        }));
        match r {
            Ok(Ok(v)) => v,
            Ok(Err(e)) => rerr(&e),
            Err(_) => json!(["panic"]),
        }
    }

    fn dump_bucket(&self, b: &Bucket, path: Vec<i64>, out: &mut Vec<Value>) -> Result<(), Error> {
        out.push(json!([path, "b", b.next_int()]));
        let mut subs: Vec<Vec<u8>> = Vec::new();
        for d in b.cursor() {
            match &d {
                Data::KeyValue(kv) => {
                    let mut p = path.clone();
                    p.push(self.prof.key_id(kv.key()));
                    out.push(json!([p, "v", self.prof.val_id(kv.value())]));
                }
                Data::Bucket(n) => subs.push(n.name().to_vec()),
            }
        }
        for n in subs {
            let nb = b.get_bucket(n.clone())?;
            let mut p = path.clone();
            p.push(self.prof.key_id(&n));
            if p.len() > 8 {
                continue;
            }
            self.dump_bucket(&nb, p, out)?;
        }
        Ok(())
    }

    fn ent(&self, d: &Data) -> Value {
        match d {
            Data::Bucket(b) => json!([self.prof.key_id(b.name()), "b", 0]),
            Data::KeyValue(kv) => {
                json!([self.prof.key_id(kv.key()), "v", self.prof.val_id(kv.value())])
            }
        }
    }

    /// one call of the public API; `o` has the fields c, p, k, v, lk, lo, hk, hi
    pub fn op(&mut self, t: i64, o: &Value) -> Value {
        let tx = match self.txs.get(&t) {
            Some(tx) => tx,
            None => return json!(["err", "NoTx"]),
        };
        let r = catch_unwind(AssertUnwindSafe(|| self.op_inner(tx, o)));
        match r {
            Ok(v) => v,
            Err(_) => json!(["panic"]),
        }
    }

    fn op_inner(&self, tx: &Tx<'static>, o: &Value) -> Value {
        let c = o["c"].as_str().unwrap_or("");
        let path: Vec<Vec<u8>> = o["p"]
            .as_array()
            .map(|a| a.iter().map(|x| self.prof.key(x.as_i64().unwrap())).collect())
            .unwrap_or_default();
        let kid = o["k"].as_i64().unwrap_or(0).max(0);
        let key = self.prof.key(kid);
        if path.is_empty() {
            return match c {
                "getb" => match tx.get_bucket(key) {
                    Ok(_) => json!(["ok"]),
                    Err(e) => rerr(&e),
                },
                "mkb" => match tx.create_bucket(key) {
                    Ok(_) => json!(["ok"]),
                    Err(e) => rerr(&e),
                },
                "gocb" => match tx.get_or_create_bucket(key) {
                    Ok(_) => json!(["ok"]),
                    Err(e) => rerr(&e),
                },
                "delb" => match tx.delete_bucket(key) {
                    Ok(()) => json!(["ok"]),
                    Err(e) => rerr(&e),
                },
                "buckets" => {
                    let l: Vec<Value> = tx
                        .buckets()
                        .map(|(name, _b)| json!([self.prof.key_id(name.name()), "b", 0]))
                        .collect();
                    json!(["list", l])
                }
                _ => json!(["unsupported"]),
            };
        }
        // resolve the path afresh for every call: with get_bucket, or ("n": 1) by picking the
        // handles that the buckets() iterators yield -- they must behave exactly the same
        let via_iter = o["n"].as_i64().unwrap_or(0) == 1;
        let mut b: Bucket = if via_iter {
            match tx.buckets().find(|(n, _)| n.name() == &path[0][..]) {
                Some((_, b)) => b,
                None => match tx.get_bucket(path[0].clone()) {
                    Ok(b) => b,
                    Err(e) => return rerr(&e),
                },
            }
        } else {
            match tx.get_bucket(path[0].clone()) {
                Ok(b) => b,
                Err(e) => return rerr(&e),
            }
        };
        for name in &path[1..] {
            let found = if via_iter { b.buckets().find(|(n, _)| n.name() == &name[..]).map(|(_, nb)| nb) } else { None };
            b = match found {
                Some(nb) => nb,
                None => match b.get_bucket(name.clone()) {
                    Ok(nb) => nb,
                    Err(e) => return rerr(&e),
                },
            };
        }
        let lk = o["lk"].as_str().unwrap_or("U");
        let hk = o["hk"].as_str().unwrap_or("U");
        let lo = self.prof.key(o["lo"].as_i64().unwrap_or(0).max(0));
        let hi = self.prof.key(o["hi"].as_i64().unwrap_or(0).max(0));
        match c {
            "put" => {
                let v = self.prof.val(o["v"].as_i64().unwrap_or(0).max(0));
                match b.put(key, v) {
                    Ok(None) => json!(["none"]),
                    Ok(Some(kv)) => {
                        json!(["kv", self.prof.key_id(kv.key()), self.prof.val_id(kv.value())])
                    }
                    Err(e) => rerr(&e),
                }
            }
            "get" => match b.get(&key) {
                None => json!(["none"]),
                Some(Data::KeyValue(kv)) => {
                    json!(["kv", self.prof.key_id(kv.key()), self.prof.val_id(kv.value())])
                }
                Some(Data::Bucket(n)) => json!(["bk", self.prof.key_id(n.name())]),
            },
            "getkv" => match b.get_kv(&key) {
                None => json!(["none"]),
                Some(kv) => json!(["kv", self.prof.key_id(kv.key()), self.prof.val_id(kv.value())]),
            },
            "del" => match b.delete(&key) {
                Ok(kv) => json!(["kv", self.prof.key_id(kv.key()), self.prof.val_id(kv.value())]),
                Err(e) => rerr(&e),
            },
            "getb" => match b.get_bucket(key) {
                Ok(_) => json!(["ok"]),
                Err(e) => rerr(&e),
            },
            "mkb" => match b.create_bucket(key) {
                Ok(_) => json!(["ok"]),
                Err(e) => rerr(&e),
            },
            "gocb" => match b.get_or_create_bucket(key) {
                Ok(_) => json!(["ok"]),
                Err(e) => rerr(&e),
            },
            "delb" => match b.delete_bucket(key) {
                Ok(()) => json!(["ok"]),
                Err(e) => rerr(&e),
            },
            "stale" => {
                // documented misuse: keep a handle, delete the bucket through its parent, use the handle
                let h = match b.get_bucket(key.clone()) {
                    Ok(h) => h,
                    Err(e) => return rerr(&e),
                };
                if let Err(e) = b.delete_bucket(key.clone()) {
                    return rerr(&e);
                }
                let which = o["v"].as_i64().unwrap_or(0).rem_euclid(8);
                let k0 = self.prof.key(0);
                // (a panic unwinds to op(), which reports ["panic"]; anything else is reported as is)
                match which {
                    0 => json!(["no-panic", format!("{:?}", h.put(k0, self.prof.val(0)).map(|_| ()))]),
                    1 => json!(["no-panic", format!("{:?}", h.get(&k0).is_some())]),
                    2 => json!(["no-panic", format!("{:?}", h.delete(&k0).map(|_| ()))]),
                    3 => json!(["no-panic", format!("{}", h.cursor().count())]),
                    4 => json!(["no-panic", format!("{}", h.next_int())]),
                    5 => json!(["no-panic", format!("{:?}", h.get_bucket(k0).map(|_| ()))]),
                    6 => json!(["no-panic", format!("{:?}", h.create_bucket(k0).map(|_| ()))]),
                    _ => json!(["no-panic", format!("{:?}", h.delete_bucket(k0))]),
                }
            }
            "nextint" => json!(["int", b.next_int()]),
            "scan" => {
                let l: Vec<Value> = b.cursor().map(|d| self.ent(&d)).collect();
                json!(["list", l])
            }
            "again" => {
                let mut cur = b.cursor();
                let mut l: Vec<Value> = Vec::new();
                while let Some(d) = cur.next() {
                    l.push(self.ent(&d));
                }
                for _ in 0..3 {
                    if let Some(d) = cur.next() {
                        let _ = d;
                        l.push(json!([-9, "x", 0])); // an entry after the end
                    }
                }
                json!(["list", l])
            }
            "buckets" => {
                let l: Vec<Value> = b
                    .buckets()
                    .map(|(name, _b)| json!([self.prof.key_id(name.name()), "b", 0]))
                    .collect();
                json!(["list", l])
            }
            "kvpairs" => {
                let l: Vec<Value> = b
                    .kv_pairs()
                    .map(|kv| json!([self.prof.key_id(kv.key()), "v", self.prof.val_id(kv.value())]))
                    .collect();
                json!(["list", l])
            }
            "range" => {
                let r = (bound(lk, &lo), bound(hk, &hi));
                let l: Vec<Value> = b.range(r).map(|d| self.ent(&d)).collect();
                json!(["list", l])
            }
            "rangeb" => {
                let r = (bound(lk, &lo), bound(hk, &hi));
                let l: Vec<Value> = b
                    .range(r)
                    .to_buckets()
                    .map(|(name, _b)| json!([self.prof.key_id(name.name()), "b", 0]))
                    .collect();
                json!(["list", l])
            }
            "rangekv" => {
                let r = (bound(lk, &lo), bound(hk, &hi));
                let l: Vec<Value> = b
                    .range(r)
                    .to_kv_pairs()
                    .map(|kv| json!([self.prof.key_id(kv.key()), "v", self.prof.val_id(kv.value())]))
                    .collect();
                json!(["list", l])
            }
            "reseek" => {
                // the same cursor is positioned twice; only the second seek matters
                let mut cur = b.cursor();
                cur.seek(&lo);
                for _ in 0..o["hi"].as_i64().unwrap_or(0) {
                    if cur.next().is_none() {
                        break;
                    }
                }
                let exists = cur.seek(&key);
                let c0: Vec<Value> = cur.current().iter().map(|d| self.ent(d)).collect();
                let drain: Vec<Value> = cur.map(|d| self.ent(&d)).collect();
                json!(["seek", exists, c0, drain])
            }
            "seek" => {
                let mut cur = b.cursor();
                let exists = cur.seek(&key);
                let c0: Vec<Value> = cur.current().iter().map(|d| self.ent(d)).collect();
                let drain: Vec<Value> = cur.map(|d| self.ent(&d)).collect();
                json!(["seek", exists, c0, drain])
            }
            _ => json!(["unsupported"]),
        }
    }
}

impl Drop for World {
    fn drop(&mut self) {
        self.txs.clear();
        if let Some(p) = self.db.take() {
            let _ = catch_unwind(AssertUnwindSafe(|| unsafe { drop(Box::from_raw(p)) }));
        }
    }
}
