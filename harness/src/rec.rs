//! The recorder: one global, ordered event stream (ndjson).  Sources: the driver (public
//! calls and their results), the cfg(jammdb_verif) hook points, and the libc interposer.
//! Single-threaded drivers get an exact order because every emit first drains the I/O that
//! happened before it.  The file is written with raw syscalls (see iohook).

use std::sync::Mutex;

use serde_json::{json, Value};

use crate::{iohook, iohook::Io, parse, profiles::Profile};

pub struct Sink {
    fd: i32,
    buf: Vec<u8>,
    pub n: u64,
    pub prof: Option<Profile>,
    pub pagesize: u64,
    pub decode: bool,
    /// raw writes since the last take_raw() (for crash-image synthesis)
    pub raw: Vec<Io>,
    pub keep_raw: bool,
    /// side file with the bytes of every write (for crash-image synthesis): records of
    /// [u64 index][u64 offset][u64 len][bytes]; `wi` numbers the write events of a history
    pub rawfd: i32,
    pub wi: u64,
}

static SINK: Mutex<Option<Sink>> = Mutex::new(None);

pub fn start(path: &str, prof: Option<Profile>, pagesize: u64, decode: bool) {
    let c = std::ffi::CString::new(path).unwrap();
    let fd = unsafe { libc::open(c.as_ptr(), libc::O_WRONLY | libc::O_CREAT | libc::O_TRUNC, 0o644) };
    assert!(fd >= 0, "cannot create trace file {}", path);
    *SINK.lock().unwrap() =
        Some(Sink { fd, buf: Vec::new(), n: 0, prof, pagesize, decode, raw: Vec::new(), keep_raw: false,
                    rawfd: -1, wi: 0 });
}

/// also write the bytes of every write to `path`
pub fn start_raw(path: &str) {
    let c = std::ffi::CString::new(path).unwrap();
    let fd = unsafe { libc::open(c.as_ptr(), libc::O_WRONLY | libc::O_CREAT | libc::O_TRUNC, 0o644) };
    assert!(fd >= 0);
    if let Some(s) = SINK.lock().unwrap().as_mut() {
        s.rawfd = fd;
    }
}

pub fn reset_write_index() {
    if let Some(s) = SINK.lock().unwrap().as_mut() {
        s.wi = 0;
    }
}

fn raw_write_all(fd: i32, mut b: &[u8]) {
    while !b.is_empty() {
        let r = unsafe { libc::syscall(libc::SYS_write, fd, b.as_ptr(), b.len()) };
        if r <= 0 {
            break;
        }
        b = &b[r as usize..];
    }
}

pub fn set_keep_raw(k: bool) {
    if let Some(s) = SINK.lock().unwrap().as_mut() {
        s.keep_raw = k;
    }
}

pub fn take_raw() -> Vec<Io> {
    match SINK.lock().unwrap().as_mut() {
        Some(s) => std::mem::take(&mut s.raw),
        None => Vec::new(),
    }
}

impl Sink {
    fn put(&mut self, v: &Value) {
        self.n += 1;
        serde_json::to_writer(&mut self.buf, v).unwrap();
        self.buf.push(b'\n');
        if self.buf.len() > 1 << 16 {
            self.flush();
        }
    }
    fn flush(&mut self) {
        let mut off = 0;
        while off < self.buf.len() {
            let r = unsafe {
                libc::syscall(libc::SYS_write, self.fd, self.buf[off..].as_ptr(), self.buf.len() - off)
            };
            if r <= 0 {
                break;
            }
            off += r as usize;
        }
        self.buf.clear();
    }
    fn drain_io(&mut self) {
        // a short write that the caller continues (write_all) is ONE page image in two calls:
        // it is presented as the single write it amounts to
        let mut ios: Vec<Io> = Vec::new();
        for io in iohook::drain() {
            if let (Some(Io::Write { off: poff, data: pdata, short: true, flen_before: pfb, .. }),
                    Io::Write { off, data, flen_after, short, .. }) = (ios.last(), &io)
            {
                if *poff + pdata.len() as u64 == *off {
                    let mut joined = pdata.clone();
                    joined.extend_from_slice(data);
                    let merged = Io::Write { off: *poff, data: joined, flen_after: *flen_after, flen_before: *pfb, short: *short };
                    ios.pop();
                    ios.push(merged);
                    continue;
                }
            }
            ios.push(io);
        }
        for io in ios {
            if self.keep_raw {
                self.raw.push(io.clone());
            }
            match io {
                Io::Write { off, data, flen_after, flen_before, short } => {
                    let ps = self.pagesize.max(1);
                    let aligned = off % ps == 0;
                    // header pages are written one page at a time, except by init_file, which
                    // writes pages 0..3 in one call: present that as four page writes
                    let mut pieces: Vec<(u64, &[u8])> = Vec::new();
                    if aligned && off / ps < 2 && data.len() as u64 > ps {
                        let mut o = 0usize;
                        while o < data.len() {
                            let e = (o + ps as usize).min(data.len());
                            pieces.push((off + o as u64, &data[o..e]));
                            o = e;
                        }
                    } else {
                        pieces.push((off, &data[..]));
                    }
                    for (off, data) in pieces {
                        let page = off / ps;
                        let wi = self.wi;
                        self.wi += 1;
                        if self.rawfd >= 0 {
                            let mut hdr = Vec::with_capacity(24);
                            hdr.extend_from_slice(&wi.to_le_bytes());
                            hdr.extend_from_slice(&off.to_le_bytes());
                            hdr.extend_from_slice(&(data.len() as u64).to_le_bytes());
                            raw_write_all(self.rawfd, &hdr);
                            raw_write_all(self.rawfd, data);
                        }
                        let mut ev = json!({"ev":"write","wi":wi,"page":page,"aligned":aligned,"len":data.len(),
                                            "n": (data.len() as u64 + ps - 1) / ps, "flen": flen_after / ps,
                                            "flenb": flen_after, "short": short,
                                            "fits": off + data.len() as u64 <= flen_before});
                        if page < 2 && aligned {
                            ev["kind"] = json!("meta");
                            match parse::decode_meta(data) {
                                Some(m) => ev["meta"] = m.json(),
                                None => ev["meta"] = json!({"hash_ok": false, "txid": -1}),
                            }
                        } else {
                            ev["kind"] = json!("page");
                            if self.decode {
                                if let Some(p) = &self.prof {
                                    ev["pg"] = parse::decode_page(data, p);
                                }
                            } else {
                                ev["pg"] = parse::decode_page_header(data);
                            }
                        }
                        self.put(&ev);
                    }
                }
                Io::Sync { flen } => {
                    let v = json!({"ev":"sync","flen": flen / self.pagesize.max(1)});
                    self.put(&v);
                }
                Io::Fail { what, index, errno, partial } => {
                    let v = json!({"ev":"iofail","what":what,"index":index,"errno":errno,"partial":partial});
                    self.put(&v);
                }
            }
        }
    }
}

/// emit one event (after everything the interposer saw before it)
pub fn emit(v: Value) {
    let mut g = SINK.lock().unwrap();
    if let Some(s) = g.as_mut() {
        s.drain_io();
        s.put(&v);
    }
}

pub fn sync_io() {
    let mut g = SINK.lock().unwrap();
    if let Some(s) = g.as_mut() {
        s.drain_io();
    }
}

pub fn count() -> u64 {
    SINK.lock().unwrap().as_ref().map(|s| s.n).unwrap_or(0)
}

pub fn finish() {
    let mut g = SINK.lock().unwrap();
    if let Some(s) = g.as_mut() {
        s.drain_io();
        s.flush();
        unsafe { libc::close(s.fd) };
        if s.rawfd >= 0 {
            unsafe { libc::close(s.rawfd) };
        }
    }
    *g = None;
}

/// the hook handler: every point becomes an event named after the point
pub fn install_hook_recorder() {
    jammdb::verif::set_handler(Some(std::sync::Arc::new(|name: &'static str, args: &[(&'static str, u64)]| {
        let mut m = serde_json::Map::new();
        m.insert("ev".into(), json!(name));
        for (k, v) in args {
            // TLC integers are 32-bit: a value beyond any page or transaction id the harness can reach
            // (u64::MAX as "no bound", a wrapped subtraction) is recorded as 2e9 -- still larger than
            // everything it is compared with
            m.insert((*k).into(), json!((*v).min(2_000_000_000)));
        }
        emit(Value::Object(m));
    })));
}
