//! Cyclic long-running workloads for C10: the logical content returns to the same state at
//! every "cycle" marker, so pages in use and (eventually) the file size must stop growing.
//! Only hook points and header / page-header information is recorded (no element decoding).

use serde_json::json;

use crate::{
    exec::World,
    iohook,
    profiles::Profile,
    rec, Args,
};

fn op(t: i64, c: &str, p: &[i64], k: i64, v: i64) -> serde_json::Value {
    json!({"a":"op","t":t,"c":c,"p":p,"k":k,"v":v,"lk":"U","lo":0,"hk":"U","hi":0})
}

/// C16 growth: a file created at the minimum size is driven across several 8 MiB extension
/// steps; near every step the transactions are sized so that the high-water mark creeps over
/// the end of the file a few pages at a time (so that it also lands exactly one page beyond).
/// jvh workload --kind creep --pagesize P --crossings N --out T
fn creep(a: &Args) -> i32 {
    use jammdb::OpenOptions;
    let ps = a.n("pagesize", 3000) as u64;
    let crossings = a.n("crossings", 3);
    let out = a.s("out", "/dev/stdout");
    let dir = crate::scratch_dir();
    let path = dir.join("creep.db");
    let _ = std::fs::remove_file(&path);
    rec::start(&out, None, ps, false);
    rec::install_hook_recorder();
    iohook::set_target(&path);
    rec::emit(json!({"ev":"hdr","kind":"creep","pagesize":ps}));
    rec::emit(json!({"ev":"reset","h":0,"pagesize":ps,"np0":4,"decode":false}));
    let strict = a.n("strict", 0) != 0;
    let mut db = match std::panic::catch_unwind(|| OpenOptions::new().pagesize(ps).num_pages(4).strict_mode(strict).open(&path)) {
        Ok(Ok(db)) => db,
        other => {
            rec::emit(json!({"ev":"opened","h":0,"res":["err", format!("{:?}", other.is_ok())]}));
            rec::finish();
            println!("{}", json!({"bad": 1, "what": "open failed"}));
            return 0;
        }
    };
    rec::emit(json!({"ev":"opened","h":0,"res":["ok"]}));
    let np_now = |path: &std::path::Path| -> (u64, u64) {
        let data = std::fs::read(path).unwrap_or_default();
        let m0 = crate::parse::decode_meta(&data[..(ps as usize).min(data.len())]);
        let m1 = data.get(ps as usize..2 * ps as usize).and_then(crate::parse::decode_meta);
        let metas = [m0, m1];
        let np = crate::parse::choose(&metas).map(|c| metas[c].as_ref().unwrap().num_pages).unwrap_or(0);
        (np, data.len() as u64)
    };
    let mut written: Vec<(Vec<u8>, usize, u8)> = Vec::new();
    let mut crossed = 0;
    let mut bad: Vec<String> = Vec::new();
    let mut i = 0u64;
    let (_, mut last_len) = np_now(&path);
    let mut aimed = 0u64;
    while crossed < crossings && i < 3000 {
        crate::tick();
        i += 1;
        let (np, flen) = np_now(&path);
        if flen != last_len {
            crossed += 1;
            last_len = flen;
            rec::emit(json!({"ev":"extended","n":crossed,"file_bytes":flen,"num_pages":np}));
            // a grown file must also be accepted again after close and reopen (its length is a
            // multiple of the page size only for page sizes that divide 8 MiB)
            rec::emit(json!({"ev":"closing"}));
            drop(db);
            db = match std::panic::catch_unwind(|| OpenOptions::new().pagesize(ps).num_pages(4).strict_mode(strict).open(&path)) {
                Ok(Ok(d)) => {
                    rec::emit(json!({"ev":"reopen","res":["ok"]}));
                    d
                }
                other => {
                    let why = match other {
                        Ok(Err(e)) => format!("{}", e),
                        _ => format!("panic: {}", crate::exec::LAST_PANIC.with(|p| p.borrow().clone())),
                    };
                    rec::emit(json!({"ev":"reopen","res":["err", why.clone()]}));
                    rec::finish();
                    iohook::deactivate();
                    println!("{}", json!({"txs": i, "bad": 1, "problems": [format!("reopen of the grown file ({} bytes) failed: {}", flen, why)],
                                          "file_bytes": flen, "crossed": crossed, "num_pages": np}));
                    return 0;
                }
            };
        }
        let boundary = flen / ps; // pages that fit the file
        let d = (boundary + 1).saturating_sub(np);
        // every other big step needs more than one 8 MiB extension at once
        let jump = if a.n("jump", 1) != 0 && crossed % 2 == 1 { (8 * 1024 * 1024 * 7 / 5) / ps } else { 0 };
        // Far from the end of the file: a big step.  Close to it: ONE value whose leaf needs exactly the pages that are
        // left plus one, so that this commit's high-water mark is the first page the file does not hold completely (when
        // the page size does not divide the file length that page is backed in part, and the value's last page is full);
        // after that small steps until the file has been extended.
        let exact = d >= 2 && d <= 60 && aimed != boundary;
        if exact {
            aimed = boundary;
        }
        let pages: u64 = if d > 60 { d - 30 + jump } else if exact { d } else { 1 + (i % 6) };
        let len = if exact { (pages * ps).saturating_sub(100) as usize } else { (pages * ps).saturating_sub(200 + (i % 7) * 13) as usize };
        let fill = b'a' + (i % 26) as u8;
        let key = format!("k{:06}", i).into_bytes();
        let r = std::panic::catch_unwind(std::panic::AssertUnwindSafe(|| -> Result<(), jammdb::Error> {
            // one bucket per value: a later commit does not rewrite the leaf of an earlier value
            let tx = db.tx(true)?;
            {
                let b = tx.create_bucket(key.clone())?;
                b.put("v", vec![fill; len])?;
            }
            tx.commit()
        }));
        rec::emit(json!({"ev":"commit","t":i,"res": match &r { Ok(Ok(())) => json!(["ok"]), Ok(Err(e)) => json!(["err", format!("{}", e)]), Err(_) => json!(["panic"]) }}));
        match r {
            Ok(Ok(())) => written.push((key, len, fill)),
            Ok(Err(e)) => {
                bad.push(format!("commit {}: {}", i, e));
                break;
            }
            Err(_) => {
                bad.push(format!("commit {} panicked: {}", i, crate::exec::LAST_PANIC.with(|p| p.borrow().clone())));
                break;
            }
        }
        // read everything back through the same handle every few commits (the map must cover it)
        if i % 5 == 0 || d <= 8 {
            let r = std::panic::catch_unwind(std::panic::AssertUnwindSafe(|| -> Result<(), String> {
                let tx = db.tx(false).map_err(|e| format!("{}", e))?;
                for (k, len, fill) in written.iter().rev().take(6) {
                    let b = tx.get_bucket(k.clone()).map_err(|e| format!("{}", e))?;
                    match b.get_kv("v") {
                        Some(kv) if kv.value().len() == *len && kv.value().iter().all(|x| x == fill) => {}
                        _ => return Err(format!("value of {:?} wrong after commit {}", String::from_utf8_lossy(k), i)),
                    }
                }
                Ok(())
            }));
            match r {
                Ok(Ok(())) => {}
                Ok(Err(e)) => {
                    bad.push(e);
                    break;
                }
                Err(_) => {
                    bad.push(format!("read-back after commit {} panicked: {}", i, crate::exec::LAST_PANIC.with(|p| p.borrow().clone())));
                    break;
                }
            }
        }
    }
    if bad.is_empty() {
        if let Err(e) = db.check() {
            bad.push(format!("DB::check: {}", e));
        }
    }
    let (np, flen) = np_now(&path);
    rec::emit(json!({"ev":"closing"}));
    drop(db);
    rec::emit(json!({"ev":"closed","file_bytes":flen,"num_pages":np,"commits":i}));
    rec::finish();
    iohook::deactivate();
    let _ = std::fs::remove_dir_all(&dir);
    println!("{}", json!({"txs": i, "bad": bad.len(), "problems": bad, "file_bytes": flen, "crossed": crossed, "num_pages": np}));
    0
}

/// jvh workload --kind fixed|varsize|delins|bucketdel --cycles C --profile P --nkeys K --nvals V
///              --out T [--reopen-every N] [--reader-from a --reader-to b] [--num-pages N]
pub fn workload(a: &Args) -> i32 {
    let kind = a.s("kind", "fixed");
    if kind == "creep" {
        return creep(a);
    }
    let cycles = a.n("cycles", 20);
    let nk = a.n("nkeys", 32);
    let nv = a.n("nvals", 6);
    let prof = Profile::new(&a.s("profile", "two"), nk as usize, nv as usize);
    let out = a.s("out", "/dev/stdout");
    let reopen_every = a.n("reopen-every", 0);
    let rfrom = a.n("reader-from", -1);
    let rto = a.n("reader-to", -1);
    let dir = crate::scratch_dir();
    let opts = crate::opts_from(a, &prof);
    let decode = a.n("decode", 0) != 0;
    rec::start(&out, Some(prof.clone()), opts.pagesize, decode);
    rec::install_hook_recorder();
    rec::emit(json!({"ev":"hdr","profile":prof.name,"nkeys":nk,"nvals":nv,"kind":kind}));
    let path = dir.join("wl.db");
    let _ = std::fs::remove_file(&path);
    iohook::set_target(&path);
    rec::emit(json!({"ev":"reset","h":0,"pagesize":opts.pagesize,"np0":opts.num_pages,"decode":decode}));
    let mut world = World::new(prof.clone(), path.clone(), opts);
    let r = world.open();
    rec::emit(json!({"ev":"opened","h":0,"res":r}));
    let mut t = 1i64;
    let mut txs = 0i64;
    let mut bad = 0;
    let b = [0i64];
    let mut reader_open = false;
    // one transaction = a list of ops
    let mut run_tx = |world: &mut World, ops: Vec<serde_json::Value>, t: &mut i64, txs: &mut i64| -> bool {
        crate::tick();
        *t += 1;
        let tid = *t;
        if world.begin(tid, true) != json!(["ok"]) {
            return false;
        }
        for mut o in ops {
            o["t"] = json!(tid);
            let r = world.op(tid, &o);
            if r[0] == "panic" || r[0] == "err" {
                rec::emit(json!({"ev":"workload-op-failed","op":o,"res":r}));
                return false;
            }
        }
        let c = world.commit(tid);
        rec::emit(json!({"ev":"commit","t":tid,"res":c}));
        *txs += 1;
        c == json!(["ok"])
    };
    // initial content
    let mut init = vec![op(0, "gocb", &[], 0, 0)];
    // the last two key ids are reserved for bucket names
    let nkv = nk - 2;
    for k in 0..nkv {
        init.push(op(0, "put", &b, k, k % nv));
    }
    if !run_tx(&mut world, init, &mut t, &mut txs) {
        bad += 1;
    }
    // --reader-plan "o1@5,o2@7,o3@9,c1@12,c3@13,c2@14": open / close reader i before cycle n
    let plan: Vec<(bool, i64, i64)> = a
        .s("reader-plan", "")
        .split(',')
        .filter(|x| !x.is_empty())
        .map(|x| {
            let (l, r) = x.split_at(x.find('@').unwrap());
            (l.starts_with('o'), l[1..].parse::<i64>().unwrap(), r[1..].parse::<i64>().unwrap())
        })
        .collect();
    let mut plan_open = 0i64;
    for cyc in 0..cycles {
        for (open, id, at) in plan.iter() {
            if *at == cyc {
                if *open {
                    world.begin(9_100_000 + id, false);
                    plan_open += 1;
                } else {
                    world.drop_tx(9_100_000 + id);
                    plan_open -= 1;
                }
            }
        }
        if rfrom >= 0 && cyc == rfrom && !reader_open {
            world.begin(9_000_000, false);
            reader_open = true;
        }
        if reader_open && cyc == rto {
            world.drop_tx(9_000_000);
            reader_open = false;
        }
        let ok = match kind.as_str() {
            // overwrite every key once per cycle, 8 keys per transaction, same values every cycle
            "fixed" => {
                let mut ok = true;
                let mut k = 0;
                while k < nkv {
                    let ops: Vec<_> = (k..(k + 8).min(nkv)).map(|x| op(0, "put", &b, x, x % nv)).collect();
                    ok &= run_tx(&mut world, ops, &mut t, &mut txs);
                    k += 8;
                }
                ok
            }
            // values change size within the cycle and come back
            "varsize" => {
                let mut ok = true;
                for phase in 0..3 {
                    let mut k = 0;
                    while k < nkv {
                        let ops: Vec<_> =
                            (k..(k + 6).min(nkv)).map(|x| op(0, "put", &b, x, (x + phase + 1) % nv)).collect();
                        ok &= run_tx(&mut world, ops, &mut t, &mut txs);
                        k += 6;
                    }
                }
                let ops: Vec<_> = (0..nkv).map(|x| op(0, "put", &b, x, x % nv)).collect();
                ok &= run_tx(&mut world, ops, &mut t, &mut txs);
                ok
            }
            // delete half of the keys, then put them back
            "delins" => {
                let ops: Vec<_> = (0..nkv).filter(|x| x % 2 == 0).map(|x| op(0, "del", &b, x, 0)).collect();
                let mut ok = run_tx(&mut world, ops, &mut t, &mut txs);
                let ops: Vec<_> = (0..nkv).filter(|x| x % 2 == 0).map(|x| op(0, "put", &b, x, x % nv)).collect();
                ok &= run_tx(&mut world, ops, &mut t, &mut txs);
                ok
            }
            // create a nested bucket tree with large values, then delete it
            "bucketdel" => {
                let mut ops = vec![op(0, "mkb", &b, nk - 1, 0)];
                let p1 = [0, nk - 1];
                for k in 0..(nk / 2) {
                    ops.push(op(0, "put", &p1, k, (k + 1) % nv));
                }
                ops.push(op(0, "mkb", &p1, nk - 2, 0));
                let p2 = [0, nk - 1, nk - 2];
                for k in 0..6 {
                    ops.push(op(0, "put", &p2, k, (k + 2) % nv));
                }
                let mut ok = run_tx(&mut world, ops, &mut t, &mut txs);
                ok &= run_tx(&mut world, vec![op(0, "delb", &b, nk - 1, 0)], &mut t, &mut txs);
                ok
            }
            _ => false,
        };
        if !ok {
            bad += 1;
            rec::emit(json!({"ev":"workload-failed","cycle":cyc}));
            break;
        }
        rec::emit(json!({"ev":"cycle","n":cyc,"txs":txs,"pinned":reader_open || plan_open > 0}));
        if reopen_every > 0 && (cyc + 1) % reopen_every == 0 && !reader_open && plan_open == 0 {
            rec::emit(json!({"ev":"closing"}));
            world.close();
            let r = world.open();
            rec::emit(json!({"ev":"reopen","res":r}));
            if r != json!(["ok"]) {
                bad += 1;
                break;
            }
        }
    }
    if reader_open {
        world.drop_tx(9_000_000);
    }
    for (open, id, _) in plan.iter() {
        if *open {
            world.drop_tx(9_100_000 + id);
        }
    }
    let chk = world.check();
    rec::emit(json!({"ev":"check","res":chk}));
    let flen = std::fs::metadata(&path).map(|m| m.len()).unwrap_or(0);
    rec::emit(json!({"ev":"closing"}));
    world.close();
    rec::emit(json!({"ev":"closed","txs":txs,"file_bytes":flen}));
    rec::finish();
    iohook::deactivate();
    let _ = std::fs::remove_dir_all(&dir);
    println!("{}", json!({"txs": txs, "bad": bad, "file_bytes": flen}));
    0
}
