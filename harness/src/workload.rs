//! Cyclic long-running workloads for C10: the logical content returns to the same state at
//! every "cycle" marker, so pages in use and (eventually) the file size must stop growing.
//! Only hook points and header / page-header information is recorded (no element decoding).

use serde_json::json;

use crate::{
    exec::World,
    iohook,
    profiles::Profile,
    rec, Args,
};

fn op(t: i64, c: &str, p: &[i64], k: i64, v: i64) -> serde_json::Value {
    json!({"a":"op","t":t,"c":c,"p":p,"k":k,"v":v,"lk":"U","lo":0,"hk":"U","hi":0})
}

/// jvh workload --kind fixed|varsize|delins|bucketdel --cycles C --profile P --nkeys K --nvals V
///              --out T [--reopen-every N] [--reader-from a --reader-to b] [--num-pages N]
pub fn workload(a: &Args) -> i32 {
    let kind = a.s("kind", "fixed");
    let cycles = a.n("cycles", 20);
    let nk = a.n("nkeys", 32);
    let nv = a.n("nvals", 6);
    let prof = Profile::new(&a.s("profile", "two"), nk as usize, nv as usize);
    let out = a.s("out", "/dev/stdout");
    let reopen_every = a.n("reopen-every", 0);
    let rfrom = a.n("reader-from", -1);
    let rto = a.n("reader-to", -1);
    let dir = crate::scratch_dir();
    let opts = crate::opts_from(a, &prof);
    let decode = a.n("decode", 0) != 0;
    rec::start(&out, Some(prof.clone()), opts.pagesize, decode);
    rec::install_hook_recorder();
    rec::emit(json!({"ev":"hdr","profile":prof.name,"nkeys":nk,"nvals":nv,"kind":kind}));
    let path = dir.join("wl.db");
    let _ = std::fs::remove_file(&path);
    iohook::set_target(&path);
    rec::emit(json!({"ev":"reset","h":0,"pagesize":opts.pagesize,"np0":opts.num_pages,"decode":decode}));
    let mut world = World::new(prof.clone(), path.clone(), opts);
    let r = world.open();
    rec::emit(json!({"ev":"opened","h":0,"res":r}));
    let mut t = 1i64;
    let mut txs = 0i64;
    let mut bad = 0;
    let b = [0i64];
    let mut reader_open = false;
    // one transaction = a list of ops
    let mut run_tx = |world: &mut World, ops: Vec<serde_json::Value>, t: &mut i64, txs: &mut i64| -> bool {
        crate::tick();
        *t += 1;
        let tid = *t;
        if world.begin(tid, true) != json!(["ok"]) {
            return false;
        }
        for mut o in ops {
            o["t"] = json!(tid);
            let r = world.op(tid, &o);
            if r[0] == "panic" || r[0] == "err" {
                rec::emit(json!({"ev":"workload-op-failed","op":o,"res":r}));
                return false;
            }
        }
        let c = world.commit(tid);
        rec::emit(json!({"ev":"commit","t":tid,"res":c}));
        *txs += 1;
        c == json!(["ok"])
    };
    // initial content
    let mut init = vec![op(0, "gocb", &[], 0, 0)];
    // the last two key ids are reserved for bucket names
    let nkv = nk - 2;
    for k in 0..nkv {
        init.push(op(0, "put", &b, k, k % nv));
    }
    if !run_tx(&mut world, init, &mut t, &mut txs) {
        bad += 1;
    }
    // --reader-plan "o1@5,o2@7,o3@9,c1@12,c3@13,c2@14": open / close reader i before cycle n
    let plan: Vec<(bool, i64, i64)> = a
        .s("reader-plan", "")
        .split(',')
        .filter(|x| !x.is_empty())
        .map(|x| {
            let (l, r) = x.split_at(x.find('@').unwrap());
            (l.starts_with('o'), l[1..].parse::<i64>().unwrap(), r[1..].parse::<i64>().unwrap())
        })
        .collect();
    let mut plan_open = 0i64;
    for cyc in 0..cycles {
        for (open, id, at) in plan.iter() {
            if *at == cyc {
                if *open {
                    world.begin(9_100_000 + id, false);
                    plan_open += 1;
                } else {
                    world.drop_tx(9_100_000 + id);
                    plan_open -= 1;
                }
            }
        }
        if rfrom >= 0 && cyc == rfrom && !reader_open {
            world.begin(9_000_000, false);
            reader_open = true;
        }
        if reader_open && cyc == rto {
            world.drop_tx(9_000_000);
            reader_open = false;
        }
        let ok = match kind.as_str() {
            // overwrite every key once per cycle, 8 keys per transaction, same values every cycle
            "fixed" => {
                let mut ok = true;
                let mut k = 0;
                while k < nkv {
                    let ops: Vec<_> = (k..(k + 8).min(nkv)).map(|x| op(0, "put", &b, x, x % nv)).collect();
                    ok &= run_tx(&mut world, ops, &mut t, &mut txs);
                    k += 8;
                }
                ok
            }
            // values change size within the cycle and come back
            "varsize" => {
                let mut ok = true;
                for phase in 0..3 {
                    let mut k = 0;
                    while k < nkv {
                        let ops: Vec<_> =
                            (k..(k + 6).min(nkv)).map(|x| op(0, "put", &b, x, (x + phase + 1) % nv)).collect();
                        ok &= run_tx(&mut world, ops, &mut t, &mut txs);
                        k += 6;
                    }
                }
                let ops: Vec<_> = (0..nkv).map(|x| op(0, "put", &b, x, x % nv)).collect();
                ok &= run_tx(&mut world, ops, &mut t, &mut txs);
                ok
            }
            // delete half of the keys, then put them back
            "delins" => {
                let ops: Vec<_> = (0..nkv).filter(|x| x % 2 == 0).map(|x| op(0, "del", &b, x, 0)).collect();
                let mut ok = run_tx(&mut world, ops, &mut t, &mut txs);
                let ops: Vec<_> = (0..nkv).filter(|x| x % 2 == 0).map(|x| op(0, "put", &b, x, x % nv)).collect();
                ok &= run_tx(&mut world, ops, &mut t, &mut txs);
                ok
            }
            // create a nested bucket tree with large values, then delete it
            "bucketdel" => {
                let mut ops = vec![op(0, "mkb", &b, nk - 1, 0)];
                let p1 = [0, nk - 1];
                for k in 0..(nk / 2) {
                    ops.push(op(0, "put", &p1, k, (k + 1) % nv));
                }
                ops.push(op(0, "mkb", &p1, nk - 2, 0));
                let p2 = [0, nk - 1, nk - 2];
                for k in 0..6 {
                    ops.push(op(0, "put", &p2, k, (k + 2) % nv));
                }
                let mut ok = run_tx(&mut world, ops, &mut t, &mut txs);
                ok &= run_tx(&mut world, vec![op(0, "delb", &b, nk - 1, 0)], &mut t, &mut txs);
                ok
            }
            _ => false,
        };
        if !ok {
            bad += 1;
            rec::emit(json!({"ev":"workload-failed","cycle":cyc}));
            break;
        }
        rec::emit(json!({"ev":"cycle","n":cyc,"txs":txs,"pinned":reader_open || plan_open > 0}));
        if reopen_every > 0 && (cyc + 1) % reopen_every == 0 && !reader_open && plan_open == 0 {
            rec::emit(json!({"ev":"closing"}));
            world.close();
            let r = world.open();
            rec::emit(json!({"ev":"reopen","res":r}));
            if r != json!(["ok"]) {
                bad += 1;
                break;
            }
        }
    }
    if reader_open {
        world.drop_tx(9_000_000);
    }
    for (open, id, _) in plan.iter() {
        if *open {
            world.drop_tx(9_100_000 + id);
        }
    }
    let chk = world.check();
    rec::emit(json!({"ev":"check","res":chk}));
    let flen = std::fs::metadata(&path).map(|m| m.len()).unwrap_or(0);
    rec::emit(json!({"ev":"closing"}));
    world.close();
    rec::emit(json!({"ev":"closed","txs":txs,"file_bytes":flen}));
    rec::finish();
    iohook::deactivate();
    let _ = std::fs::remove_dir_all(&dir);
    println!("{}", json!({"txs": txs, "bad": bad, "file_bytes": flen}));
    0
}
