//! I/O fault enumeration (C11): for every interposed call a commit of a recorded history
//! issues, the history is re-run with that call failing (plain error; short write followed by
//! an error; file extension refused through a file-size limit).  Required: commit returns an
//! error (no panic / abort), the same handle then shows exactly the state before or after the
//! transaction, DB::check agrees, further transactions commit and read back, and the same holds
//! after reopening.  Every run is recorded (public calls, hook points, I/O) for Trace_Page.

use std::io::Write;

use serde_json::{json, Value};

use crate::{
    exec::{Opts, World},
    iohook,
    profiles::Profile,
    rec, Args,
};

fn run_step(world: &mut World, st: &Value) -> Value {
    crate::tick();
    let act = st["a"].as_str().unwrap_or("");
    let t = st["t"].as_i64().unwrap_or(0);
    let got = match act {
        "begin" => world.begin(t, st["w"].as_bool().unwrap_or(false)),
        "op" => world.op(t, st),
        "commit" => world.commit(t),
        "drop" => world.drop_tx(t),
        "reopen" => {
            rec::emit(json!({"ev":"closing"}));
            let c = world.close();
            if c != json!(["ok"]) {
                c
            } else {
                world.open()
            }
        }
        "check" => world.check(),
        _ => json!(["unsupported-step"]),
    };
    let mut e = st.clone();
    e["ev"] = json!(act);
    e["res"] = got.clone();
    e.as_object_mut().unwrap().remove("exp");
    e.as_object_mut().unwrap().remove("exp_any");
    rec::emit(e);
    got
}

/// follow-up transactions on the same handle: each puts a fresh pair into a fresh bucket,
/// commits, and a new transaction reads it back
fn follow_up(world: &mut World, n: i64, base_t: i64) -> Result<(), String> {
    let nk = world.prof.keys.len() as i64;
    for i in 0..n {
        let t = base_t + i * 2;
        let b = nk - 1 - (i % 2);
        let k = (i * 3 + 1) % (nk - 2);
        let steps = [
            json!({"a":"begin","t":t,"w":true}),
            json!({"a":"op","t":t,"c":"gocb","p":[],"k":b,"v":0,"lk":"U","lo":0,"hk":"U","hi":0}),
            json!({"a":"op","t":t,"c":"put","p":[b],"k":k,"v":1,"lk":"U","lo":0,"hk":"U","hi":0}),
            json!({"a":"commit","t":t}),
            json!({"a":"check"}),
            json!({"a":"begin","t":t + 1,"w":false}),
            json!({"a":"op","t":t + 1,"c":"get","p":[b],"k":k,"v":0,"lk":"U","lo":0,"hk":"U","hi":0}),
            json!({"a":"drop","t":t + 1}),
        ];
        for s in steps.iter() {
            let r = run_step(world, s);
            let bad = match s["a"].as_str().unwrap() {
                "op" if s["c"] == "get" => r != json!(["kv", k, 1]),
                "op" => r[0] == "err" || r[0] == "panic",
                _ => r != json!(["ok"]),
            };
            if bad {
                return Err(format!("follow-up transaction {} step {}: {}", i, s, r));
            }
        }
    }
    Ok(())
}

/// jvh fault-run --hist H.json --profile P --nkeys K --nvals V --out O --trace-out T
///               [--num-pages N] [--growth 1]
pub fn fault_run(a: &Args) -> i32 {
    let hist: Value = serde_json::from_str(&std::fs::read_to_string(a.s("hist", "")).unwrap()).unwrap();
    let steps: Vec<Value> = hist["steps"].as_array().unwrap().clone();
    // two key ids beyond the history's universe: the follow-up transactions use them as names of buckets of their own
    // (inside the history's universe such a name can be a pair or a nested bucket, and a refused put is not a fault)
    let prof = Profile::new(&a.s("profile", "two"), a.n("nkeys", 12) as usize + 2, a.n("nvals", 4) as usize);
    let out = a.s("out", "/dev/stdout");
    let tout = a.s("trace-out", "");
    let dir = crate::scratch_dir();
    let opts = crate::opts_from(a, &prof);
    let mut w = std::io::BufWriter::new(std::fs::File::create(&out).unwrap());
    rec::start(&tout, Some(prof.clone()), opts.pagesize, true);
    rec::install_hook_recorder();
    rec::emit(json!({"ev":"hdr","profile":prof.name,"nkeys":prof.keys.len(),"nvals":prof.vals.len()}));
    let path = dir.join("fault.db");
    let mut h = 0i64;

    // 1. clean run: calls per commit, state after every commit
    let mut calls: Vec<i64> = Vec::new();
    let mut states: Vec<Value> = Vec::new();
    let mut grows: Vec<bool> = Vec::new();
    {
        let _ = std::fs::remove_file(&path);
        iohook::set_target(&path);
        rec::reset_write_index();
        rec::emit(json!({"ev":"reset","h":h,"pagesize":opts.pagesize,"np0":opts.num_pages,"fault":"none"}));
        let mut world = World::new(prof.clone(), path.clone(), opts.clone());
        let r = world.open();
        rec::emit(json!({"ev":"opened","h":h,"res":r}));
        states.push(world.dump());
        for st in steps.iter() {
            if st["a"] == "commit" {
                iohook::arm_fault(-1, 0, 0, false);
                let len0 = std::fs::metadata(&path).map(|m| m.len()).unwrap_or(0);
                let r = run_step(&mut world, st);
                if r == json!(["ok"]) {
                    calls.push(iohook::calls());
                    states.push(world.dump());
                    grows.push(std::fs::metadata(&path).map(|m| m.len()).unwrap_or(0) > len0);
                } else if r != json!(["err", "ReadOnlyTx"]) {
                    writeln!(w, "{}", json!({"bad": "clean run: commit did not succeed", "res": r})).unwrap();
                }
            } else {
                run_step(&mut world, st);
            }
        }
        rec::emit(json!({"ev":"closing"}));
        world.close();
        rec::emit(json!({"ev":"closed"}));
    }
    iohook::disarm();

    // 2. every call of every commit, failing
    let mut runs = 0i64;
    let mut bad = 0i64;
    let mut outcomes: std::collections::HashMap<String, i64> = std::collections::HashMap::new();
    let only_commit = a.n("commit", -1);
    for c in 0..calls.len() {
        if only_commit >= 0 && only_commit != c as i64 {
            continue;
        }
        let mut plans: Vec<(String, i64, i64)> = Vec::new(); // (name, call index, kind)
        for k in 0..calls[c] {
            plans.push((format!("call{}-error", k), k, 0));
            plans.push((format!("call{}-short", k), k, 1));
            plans.push((format!("call{}-shortok", k), k, 3));
        }
        if grows[c] {
            plans.push(("growth-refused".into(), -1, 2));
        }
        for (pname, k, kind) in plans {
            h += 1;
            runs += 1;
            let _ = std::fs::remove_file(&path);
            iohook::disarm();
            iohook::set_target(&path);
            rec::reset_write_index();
            rec::emit(json!({"ev":"reset","h":h,"pagesize":opts.pagesize,"np0":opts.num_pages,
                             "fault":pname,"commit":c}));
            let mut world = World::new(prof.clone(), path.clone(), opts.clone());
            let r = world.open();
            rec::emit(json!({"ev":"opened","h":h,"res":r}));
            let mut ci = 0usize;
            let mut verdict: Option<String> = None;
            let mut fired = false;
            let mut result = json!(null);
            for st in steps.iter() {
                if st["a"] == "commit" && world.has_tx(st["t"].as_i64().unwrap_or(0)) && is_writer_commit(&steps, st) {
                    if ci == c {
                        let mut old_limit: libc::rlimit = unsafe { std::mem::zeroed() };
                        if kind == 2 {
                            unsafe {
                                libc::signal(libc::SIGXFSZ, libc::SIG_IGN);
                                libc::getrlimit(libc::RLIMIT_FSIZE, &mut old_limit);
                                let cur = std::fs::metadata(&path).map(|m| m.len()).unwrap_or(0);
                                let nl = libc::rlimit { rlim_cur: cur, rlim_max: old_limit.rlim_max };
                                libc::setrlimit(libc::RLIMIT_FSIZE, &nl);
                            }
                        } else {
                            iohook::arm_fault(k, kind, libc::EIO, false);
                        }
                        result = run_step(&mut world, st);
                        fired = kind == 2 || iohook::calls() > k;
                        iohook::disarm();
                        if kind == 2 {
                            unsafe { libc::setrlimit(libc::RLIMIT_FSIZE, &old_limit) };
                        }
                        break;
                    }
                    ci += 1;
                }
                run_step(&mut world, st);
            }
            if !fired {
                *outcomes.entry("fault-not-reached".into()).or_insert(0) += 1;
                continue;
            }
            // what commit returned
            if result == json!(["ok"]) {
                // the failing call was retried or was not needed: the commit must then be complete
                if world.dump() != states[c + 1] {
                    verdict = Some("commit returned Ok although an I/O call failed and the new state is not visible".into());
                } else if world.check() != json!(["ok"]) {
                    verdict = Some(format!("commit returned Ok after a short write but DB::check fails: {}", world.check()));
                }
                *outcomes.entry("commit-ok".into()).or_insert(0) += 1;
            } else if result[0] == "panic" {
                verdict = Some(format!("commit panicked: {}", crate::exec::LAST_PANIC.with(|p| p.borrow().clone())));
            } else if result != json!(["err", "Io"]) {
                verdict = Some(format!("commit returned {}", result));
            }
            if verdict.is_none() && result != json!(["ok"]) {
                let d = world.dump();
                let which = if d == states[c] {
                    "pre"
                } else if d == states[c + 1] {
                    "post"
                } else {
                    "neither"
                };
                *outcomes.entry(format!("err-then-{}", which)).or_insert(0) += 1;
                if which == "neither" {
                    verdict = Some(format!("after the failed commit the handle shows neither the pre nor the post state: {}",
                                           d.to_string().chars().take(200).collect::<String>()));
                } else {
                    let chk = world.check();
                    rec::emit(json!({"ev":"check","res":chk}));
                    if chk != json!(["ok"]) {
                        verdict = Some(format!("DB::check after the failed commit: {}", chk));
                    }
                }
            }
            if verdict.is_none() {
                if let Err(e) = follow_up(&mut world, 3, 5000) {
                    verdict = Some(e);
                }
            }
            if verdict.is_none() {
                let before = world.dump();
                rec::emit(json!({"ev":"closing"}));
                world.close();
                let r = world.open();
                rec::emit(json!({"ev":"reopen","res":r}));
                if r != json!(["ok"]) {
                    verdict = Some(format!("reopen after the fault: {}", r));
                } else {
                    let after = world.dump();
                    if after != before {
                        verdict = Some("content differs after reopening".into());
                    }
                    let chk = world.check();
                    rec::emit(json!({"ev":"check","res":chk}));
                    if verdict.is_none() && chk != json!(["ok"]) {
                        verdict = Some(format!("DB::check after reopen: {}", chk));
                    }
                    if verdict.is_none() {
                        if let Err(e) = follow_up(&mut world, 1, 6000) {
                            verdict = Some(e);
                        }
                    }
                }
            }
            rec::emit(json!({"ev":"closing"}));
            world.close();
            rec::emit(json!({"ev":"closed"}));
            if let Some(v) = verdict {
                bad += 1;
                writeln!(w, "{}", json!({"h": h, "commit": c, "fault": pname, "what": v, "commit_result": result})).unwrap();
            }
        }
    }
    writeln!(w, "{}", json!({"summary": true, "runs": runs, "bad": bad, "commits": calls.len(), "calls": calls,
                              "outcomes": outcomes})).unwrap();
    w.flush().unwrap();
    rec::finish();
    iohook::deactivate();
    let _ = std::fs::remove_dir_all(&dir);
    0
}

fn is_writer_commit(steps: &[Value], st: &Value) -> bool {
    let t = st["t"].as_i64().unwrap_or(0);
    steps.iter().any(|s| s["a"] == "begin" && s["t"].as_i64() == Some(t) && s["w"].as_bool() == Some(true))
}
