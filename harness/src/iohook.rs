//! In-binary interposition of the libc entry points the standard library uses for file I/O.
//! The static linker resolves std's references to `write`, `fsync`, ... to these definitions,
//! so every write jammdb issues on the database file is seen (and can be made to fail)
//! without touching jammdb.  `fallocate` and `flock` are raw syscalls inside rustix and are
//! not interposable: growth is inferred from the file length, locking observed by effect.
//!
//! Nothing here may use std I/O (it would recurse): forwarding uses raw syscalls, recording
//! goes to an in-memory list drained by the harness.

use std::sync::{
    atomic::{AtomicBool, AtomicI64, AtomicU8, Ordering},
    Mutex,
};

use libc::{c_int, c_void, off64_t, size_t, ssize_t};

#[derive(Clone, Debug)]
pub enum Io {
    Write { off: u64, data: Vec<u8>, flen_after: u64, flen_before: u64, short: bool },
    Sync { flen: u64 },
    Fail { what: &'static str, index: i64, errno: i32, partial: usize },
}

const MAXFD: usize = 4096;
// 0 unknown, 1 not the target, 2 target
static FD_KIND: [AtomicU8; MAXFD] = {
    const Z: AtomicU8 = AtomicU8::new(0);
    [Z; MAXFD]
};
static ACTIVE: AtomicBool = AtomicBool::new(false);
static TARGET: Mutex<Vec<u8>> = Mutex::new(Vec::new());
static LOG: Mutex<Vec<Io>> = Mutex::new(Vec::new());

// fault plan: fail the FAIL_AT-th interposed call on the target (counting writes and syncs
// from arming, 0-based); -1 = none.  kind: 0 error, 1 short write then error
static CALLS: AtomicI64 = AtomicI64::new(0);
static FAIL_AT: AtomicI64 = AtomicI64::new(-1);
static FAIL_KIND: AtomicI64 = AtomicI64::new(0);
static FAIL_ERRNO: AtomicI64 = AtomicI64::new(libc::EIO as i64);
static FAIL_STICKY: AtomicBool = AtomicBool::new(false);

pub fn set_target(path: &std::path::Path) {
    use std::os::unix::ffi::OsStrExt;
    let mut t = TARGET.lock().unwrap();
    *t = path.as_os_str().as_bytes().to_vec();
    for k in FD_KIND.iter() {
        k.store(0, Ordering::Relaxed);
    }
    ACTIVE.store(true, Ordering::SeqCst);
}

pub fn deactivate() {
    ACTIVE.store(false, Ordering::SeqCst);
}

pub fn drain() -> Vec<Io> {
    std::mem::take(&mut *LOG.lock().unwrap())
}

pub fn calls() -> i64 {
    CALLS.load(Ordering::SeqCst)
}

/// arm: the `at`-th call from now fails
pub fn arm_fault(at: i64, kind: i64, errno: i32, sticky: bool) {
    CALLS.store(0, Ordering::SeqCst);
    FAIL_KIND.store(kind, Ordering::SeqCst);
    FAIL_ERRNO.store(errno as i64, Ordering::SeqCst);
    FAIL_STICKY.store(sticky, Ordering::SeqCst);
    FAIL_AT.store(at, Ordering::SeqCst);
}

pub fn disarm() {
    FAIL_AT.store(-1, Ordering::SeqCst);
    CALLS.store(0, Ordering::SeqCst);
}

fn set_errno(e: i32) {
    unsafe { *libc::__errno_location() = e };
}

fn is_target(fd: c_int) -> bool {
    if !ACTIVE.load(Ordering::Relaxed) || fd < 0 || fd as usize >= MAXFD {
        return false;
    }
    let k = FD_KIND[fd as usize].load(Ordering::Relaxed);
    if k != 0 {
        return k == 2;
    }
    // resolve /proc/self/fd/<fd> with raw syscalls
    let mut link = [0u8; 64];
    let s = format_fd(fd, &mut link);
    let mut buf = [0u8; 4096];
    let n = unsafe {
        libc::syscall(libc::SYS_readlink, s.as_ptr(), buf.as_mut_ptr(), buf.len()) as isize
    };
    let mut kind = 1;
    if n > 0 {
        if let Ok(t) = TARGET.try_lock() {
            if !t.is_empty() && &buf[..n as usize] == &t[..] {
                kind = 2;
            }
        } else {
            return false;
        }
    }
    FD_KIND[fd as usize].store(kind, Ordering::Relaxed);
    kind == 2
}

fn format_fd(fd: c_int, out: &mut [u8; 64]) -> &[u8] {
    let prefix = b"/proc/self/fd/";
    out[..prefix.len()].copy_from_slice(prefix);
    let mut digits = [0u8; 12];
    let mut n = fd as u32;
    let mut i = 0;
    if n == 0 {
        digits[0] = b'0';
        i = 1;
    }
    while n > 0 {
        digits[i] = b'0' + (n % 10) as u8;
        n /= 10;
        i += 1;
    }
    let mut p = prefix.len();
    while i > 0 {
        i -= 1;
        out[p] = digits[i];
        p += 1;
    }
    out[p] = 0;
    &out[..=p]
}

fn file_len(fd: c_int) -> u64 {
    let mut st: libc::stat = unsafe { std::mem::zeroed() };
    let r = unsafe { libc::syscall(libc::SYS_fstat, fd, &mut st as *mut libc::stat) };
    if r == 0 {
        st.st_size as u64
    } else {
        0
    }
}

fn should_fail() -> Option<(i64, i64, i32)> {
    let idx = CALLS.fetch_add(1, Ordering::SeqCst);
    let at = FAIL_AT.load(Ordering::SeqCst);
    if at >= 0 && (idx == at || (FAIL_STICKY.load(Ordering::SeqCst) && idx > at)) {
        return Some((idx, FAIL_KIND.load(Ordering::SeqCst), FAIL_ERRNO.load(Ordering::SeqCst) as i32));
    }
    None
}

#[no_mangle]
pub unsafe extern "C" fn write(fd: c_int, buf: *const c_void, count: size_t) -> ssize_t {
    if !is_target(fd) {
        return libc::syscall(libc::SYS_write, fd, buf, count) as ssize_t;
    }
    let off = libc::syscall(libc::SYS_lseek, fd, 0 as off64_t, libc::SEEK_CUR) as i64;
    let flb = file_len(fd);
    if let Some((idx, kind, errno)) = should_fail() {
        let mut partial = 0usize;
        if kind == 3 && count > 1 {
            // a short write without any error: write_all has to go on with the rest
            let n = ((count / 2) & !511usize).max(1);
            let r = libc::syscall(libc::SYS_write, fd, buf, n) as ssize_t;
            if r > 0 {
                let data = std::slice::from_raw_parts(buf as *const u8, r as usize).to_vec();
                let fl = file_len(fd);
                LOG.lock().unwrap().push(Io::Write { off: off as u64, data, flen_after: fl, flen_before: flb, short: true });
            }
            return r;
        }
        if kind == 1 && count > 1 {
            // a short write: half of the bytes (sector aligned if possible) reach the file
            partial = (count / 2) & !511usize;
            if partial == 0 {
                partial = count / 2;
            }
            let r = libc::syscall(libc::SYS_write, fd, buf, partial) as ssize_t;
            if r > 0 {
                let data = std::slice::from_raw_parts(buf as *const u8, r as usize).to_vec();
                let fl = file_len(fd);
                LOG.lock().unwrap().push(Io::Write { off: off as u64, data, flen_after: fl, flen_before: flb, short: true });
                // the next call (write_all retries the rest) fails
                FAIL_AT.store(idx + 1, Ordering::SeqCst);
                FAIL_KIND.store(0, Ordering::SeqCst);
                LOG.lock().unwrap().push(Io::Fail { what: "write-short", index: idx, errno, partial: r as usize });
                return r;
            }
        }
        LOG.lock().unwrap().push(Io::Fail { what: "write", index: idx, errno, partial });
        set_errno(errno);
        return -1;
    }
    let r = libc::syscall(libc::SYS_write, fd, buf, count) as ssize_t;
    if r > 0 {
        let data = std::slice::from_raw_parts(buf as *const u8, r as usize).to_vec();
        let fl = file_len(fd);
        LOG.lock().unwrap().push(Io::Write { off: off as u64, data, flen_after: fl, flen_before: flb, short: false });
    }
    r
}

#[no_mangle]
pub unsafe extern "C" fn pwrite64(fd: c_int, buf: *const c_void, count: size_t, offset: off64_t) -> ssize_t {
    if !is_target(fd) {
        return libc::syscall(libc::SYS_pwrite64, fd, buf, count, offset) as ssize_t;
    }
    let flb = file_len(fd);
    if let Some((idx, _kind, errno)) = should_fail() {
        LOG.lock().unwrap().push(Io::Fail { what: "pwrite", index: idx, errno, partial: 0 });
        set_errno(errno);
        return -1;
    }
    let r = libc::syscall(libc::SYS_pwrite64, fd, buf, count, offset) as ssize_t;
    if r > 0 {
        let data = std::slice::from_raw_parts(buf as *const u8, r as usize).to_vec();
        let fl = file_len(fd);
        LOG.lock().unwrap().push(Io::Write { off: offset as u64, data, flen_after: fl, flen_before: flb, short: false });
    }
    r
}

unsafe fn sync_common(fd: c_int, nr: libc::c_long, what: &'static str) -> c_int {
    if !is_target(fd) {
        return libc::syscall(nr, fd) as c_int;
    }
    if let Some((idx, _kind, errno)) = should_fail() {
        LOG.lock().unwrap().push(Io::Fail { what, index: idx, errno, partial: 0 });
        set_errno(errno);
        return -1;
    }
    let r = libc::syscall(nr, fd) as c_int;
    if r == 0 {
        LOG.lock().unwrap().push(Io::Sync { flen: file_len(fd) });
    }
    r
}

#[no_mangle]
pub unsafe extern "C" fn fsync(fd: c_int) -> c_int {
    sync_common(fd, libc::SYS_fsync, "fsync")
}

#[no_mangle]
pub unsafe extern "C" fn fdatasync(fd: c_int) -> c_int {
    sync_common(fd, libc::SYS_fdatasync, "fdatasync")
}

#[no_mangle]
pub unsafe extern "C" fn close(fd: c_int) -> c_int {
    if fd >= 0 && (fd as usize) < MAXFD {
        FD_KIND[fd as usize].store(0, Ordering::Relaxed);
    }
    libc::syscall(libc::SYS_close, fd) as c_int
}
