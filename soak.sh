#!/bin/sh
# soak.sh <seed>... : every quick check on the tree as it is, once per seed; results in soak.log next to this script.
# Evidence and replay files go to a scratch directory so that /verif/evidence keeps the registered runs' output.
cd "$(dirname "$0")"
export VERIF_EVIDENCE_DIR=/dev/shm/jammdb-verif-soak-evidence
for seed in "$@"; do
  for c in C01 C02 C03 C04 C05 C06 C07 C08 C09 C10 C11 C12 C13 C15 C16; do
    s=$(date +%s)
    VERIF_SEED=$seed timeout ${SOAK_TIMEOUT:-3600} ./check $c --tier ${TIER:-quick} > /dev/shm/soak-$c-$seed.out 2>&1
    rc=$?
    echo "seed=$seed $c rc=$rc $(( $(date +%s) - s ))s $(grep -c '^VIOLATION' /dev/shm/soak-$c-$seed.out) violations" | tee -a ${SOAK_LOG:-/verif/work/soak.log}
    [ $rc -eq 0 ] && rm -f /dev/shm/soak-$c-$seed.out
  done
done
