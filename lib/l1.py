"""L1 bindings: page-level trace validation (Trace_Page) of recorded executions."""
import json, os
from vlib import *
import kv

# rules whose violation is decided by a different property's check are tagged so that the
# calling check can scope them
SYNC_RULE = os.environ.get("JV_SYNC_BEFORE_META", "1")


def page_trace(verdict, tf, run_info, sync_rule=None, also_kv=True, scope=None):
    """Validates one recorded trace file against Trace_Page (and Trace_KV).  Returns stats."""
    lines = read_lines(tf)
    env = {"SYNC_BEFORE_META": sync_rule if sync_rule is not None else SYNC_RULE}
    out = vlib_tlc_trace_page(tf, env)
    reps, stuck, states = out
    if stuck is not None:
        raise ToolError("CONFORMANCE: Trace_Page cannot match line %d of %s: %s" % (stuck, tf, lines[stuck - 1][:300]))
    seen = set()
    for r in reps:
        key = (r["rule"], r["line"])
        if key in seen:
            continue
        seen.add(key)
        ev = json.loads(lines[r["line"] - 1])
        # hook and I/O events precede the driver event of the call they belong to
        upto = r["line"]
        while upto < len(lines) and not any(('"ev":"%s"' % x) in lines[upto - 1]
                                            for x in ("op", "commit", "drop", "begin", "reopen", "check", "closed")):
            upto += 1
        hist = kv.history_of(lines, upto)
        sig = {"kind": "l1", "rule": r["rule"], "ev": ev.get("ev"), "profile": run_info.get("profile")}
        if scope and not scope(sig):
            verdict.skipped += 1
            continue
        if r["rule"] in ("structure", "structure-at-open"):
            sig["errs"] = sorted(set(e[0] for e in r["detail"]))
        verdict.report(sig, {"run": run_info, "rule": r["rule"], "detail": r["detail"], "event": ev,
                             "history": kv.to_steps(hist),
                             "how": "jvh replay --trace-out of 'history' under run.profile, then Trace_Page reports 'rule'"})
    st2 = 0
    if also_kv:
        mism, stuck2, st2 = tlc_trace("Trace_KV", "Trace_KV.cfg", tf)
        if stuck2 is not None:
            raise ToolError("CONFORMANCE: Trace_KV cannot match line %d of %s" % (stuck2, tf))
        for m in mism:
            ev = json.loads(lines[m["line"] - 1])
            hist = kv.history_of(lines, m["line"])
            sig = kv.kv_signature(ev, m.get("exp"), hist)
            sig["profile"] = run_info.get("profile")
            if scope and not scope(sig):
                verdict.skipped += 1
                continue
            verdict.report(sig, {"run": run_info, "event": ev, "allowed": m.get("exp"), "history": kv.to_steps(hist)})
    nw = sum(1 for x in lines if '"ev":"write"' in x)
    ncommit = sum(1 for x in lines if '"ev":"commit:meta_written"' in x)
    return dict(events=len(lines), states=states + st2, writes=nw, commits=ncommit, reports=len(seen))


def vlib_tlc_trace_page(tf, env):
    out = vlib_raw("Trace_Page", "Trace_Page.cfg", tf, env)
    return out


def vlib_raw(module, cfg, tf, env):
    import vlib
    e = {"TRACE": tf}
    e.update(env)
    out = vlib._tlc(module, cfg, 1, extra_env=e, dfs=True, xmx="8g", timeout=3000)
    reps = parse_printed_json(out)
    stuck = None
    for r in reps:
        if isinstance(r, dict) and r.get("tag") == "STUCK":
            stuck = r["line"]
    states, trans = tlc_stats(out)
    other_err = [l for l in out.splitlines() if l.startswith("Error:") and "Postcondition" not in l]
    if other_err or states == 0:
        log(out[-6000:])
        raise ToolError("TLC trace validation (%s) failed: %s" % (module, other_err[:1]))
    return [r for r in reps if isinstance(r, dict) and r.get("tag") == "L1"], stuck, states


def vlib_raw_tag(module, cfg, tf, env, tag):
    import vlib
    e = {"TRACE": tf}
    e.update(env)
    out = vlib._tlc(module, cfg, 1, extra_env=e, dfs=True, xmx="4g", timeout=3000)
    reps = parse_printed_json(out)
    stuck = None
    for r in reps:
        if isinstance(r, dict) and r.get("tag") == "STUCK":
            stuck = r["line"]
    states, trans = tlc_stats(out)
    other_err = [x for x in out.splitlines() if x.startswith("Error:") and "Postcondition" not in x]
    if other_err or states == 0:
        log(out[-4000:])
        raise ToolError("TLC trace validation (%s) failed: %s" % (module, other_err[:1]))
    return [r for r in reps if isinstance(r, dict) and r.get("tag") == tag], stuck, states


def record_random(run, tag):
    """Drives the real code with a seeded random history, recording L0 + L1 events."""
    build_harness()
    tf = os.path.join(scratch(), "%s-%s-%d.ndjson" % (tag, run["profile"], run["seed"]))
    args = ["trace", "--seed", run["seed"], "--n", run["n"], "--len", run["len"], "--profile", run["profile"],
            "--nkeys", run["nkeys"], "--nvals", run["nvals"], "--out", tf, "--l1", "1"] + list(run.get("args", []))
    p = run_jvh(args)
    return tf, p


def record_behaviours(beh, profile, tag, extra_args=()):
    """Replays TLC-generated behaviours with full recording.  Returns (trace file, result lines, rc)."""
    build_harness()
    d = scratch()
    fn = os.path.join(d, "%s-%s-in.ndjson" % (tag, profile))
    with open(fn, "w") as f:
        for i, b in enumerate(beh):
            b = dict(b)
            b["id"] = i
            f.write(json.dumps(b) + "\n")
    tf = os.path.join(d, "%s-%s-trace.ndjson" % (tag, profile))
    out = fn + ".out"
    p = run_jvh(["replay", "--in", fn, "--profile", profile, "--out", out, "--trace-out", tf] + list(extra_args))
    res = read_lines(out) if os.path.exists(out) else []
    for x in (fn, out, out + ".progress"):
        if os.path.exists(x):
            os.remove(x)
    return tf, res, p
