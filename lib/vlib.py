"""Shared machinery for the jammdb checks: harness build, TLC drivers (model checking,
behaviour generation, trace validation), known-findings handling, evidence files."""
import json, os, re, shutil, subprocess, sys, time, hashlib

VERIF = os.path.dirname(os.path.dirname(os.path.abspath(__file__)))
SPEC = os.path.join(VERIF, "spec")
# development only: a copy of harness/ whose Cargo.toml points at a scratch worktree of /repo (seeded changes are
# then tried without touching /repo); the registered commands never set it
HARNESS = os.environ.get("VERIF_HARNESS_DIR") or os.path.join(VERIF, "harness")
JVH = os.path.join(HARNESS, "target", "debug", "jvh")
# seeded-change sweeps redirect their evidence and replay files so that /verif/evidence keeps the clean tree's
EVID = os.environ.get("VERIF_EVIDENCE_DIR") or os.path.join(VERIF, "evidence")
REPLAYS = os.path.join(EVID, "replays")
NCPU = os.cpu_count() or 4


class ToolError(Exception):
    pass


def log(*a):
    print(*a, file=sys.stderr, flush=True)


def scratch():
    base = "/dev/shm" if os.path.isdir("/dev/shm") else os.environ.get("TMPDIR", "/tmp")
    d = os.path.join(base, "jammdb-verif.%d" % os.getpid())
    os.makedirs(d, exist_ok=True)
    return d


def cleanup_scratch():
    shutil.rmtree(scratch(), ignore_errors=True)


_built = False


def build_harness():
    """Rebuilds the harness (and jammdb from /repo's current working tree, hooks enabled)."""
    global _built
    if _built:
        return
    env = dict(os.environ, CARGO_NET_OFFLINE="true")
    t0 = time.time()
    # a lock so that concurrently started checks do not fight over the target directory
    import fcntl
    os.makedirs(os.path.join(HARNESS, "target"), exist_ok=True)
    with open(os.path.join(HARNESS, "target", ".vlock"), "w") as lk:
        fcntl.flock(lk, fcntl.LOCK_EX)
        p = subprocess.run(["cargo", "build", "--offline"], cwd=HARNESS, env=env,
                           stdout=subprocess.PIPE, stderr=subprocess.STDOUT, text=True)
    if p.returncode != 0:
        log(p.stdout[-6000:])
        raise ToolError("harness build failed")
    log("harness built in %.1fs" % (time.time() - t0))
    _built = True


def run_jvh(args, timeout=3600, env=None):
    e = dict(os.environ)
    if env:
        e.update(env)
    return subprocess.run([JVH] + [str(a) for a in args], stdout=subprocess.PIPE,
                          stderr=subprocess.PIPE, text=True, timeout=timeout, env=e)


# ------------------------------------------------------------------------------------------
# TLC
# ------------------------------------------------------------------------------------------

def _tlc(module, cfg, workers, extra_env=None, extra_args=(), timeout=3600, dfs=False, xmx=None,
         simulate=None):
    md = os.path.join(scratch(), "md-%s-%d" % (os.path.basename(module), int(time.time() * 1000) % 10**9))
    jopts = "-Xss1g -DTLA-Library=%s" % SPEC
    if dfs:
        jopts += " -Dtlc2.tool.queue.IStateQueue=StateDeque"
    if xmx:
        jopts += " -Xmx%s" % xmx
    env = dict(os.environ, JAVA_TOOL_OPTIONS=jopts)
    if extra_env:
        env.update(extra_env)
    # -checkpoint 0: no periodic checkpoints (the depth-first queue of the trace specs does not support them, and a
    # run of more than 30 minutes would end with an exception)
    cmd = ["tlc", "-workers", str(workers), "-metadir", md, "-cleanup", "-noGenerateSpecTE", "-checkpoint", "0"]
    if simulate:
        cmd += ["-simulate", simulate, "-depth", "400", "-seed", str(os.environ.get("VERIF_SEED") or 1)]
    cmd += list(extra_args)
    if os.path.isabs(module):
        # a generated instantiation module (constants) outside /verif/spec
        cmd += ["-config", cfg, module]
        cwd = os.path.dirname(module)
    else:
        cmd += ["-config", os.path.join(SPEC, cfg), os.path.join(SPEC, module + ".tla")]
        cwd = SPEC
    try:
        p = subprocess.run(cmd, cwd=cwd, env=env, stdout=subprocess.PIPE, stderr=subprocess.STDOUT,
                           text=True, timeout=timeout)
    except subprocess.TimeoutExpired:
        shutil.rmtree(md, ignore_errors=True)
        raise ToolError("TLC timeout on %s/%s" % (module, cfg))
    shutil.rmtree(md, ignore_errors=True)
    return p.stdout


_STAT = re.compile(r"(\d+) states generated, (\d+) distinct states found")


def tla_value(v):
    """python value -> TLA+ expression"""
    if isinstance(v, bool):
        return "TRUE" if v else "FALSE"
    if isinstance(v, int):
        return str(v)
    if isinstance(v, str):
        return '"%s"' % v
    if isinstance(v, (set, frozenset)):
        return "{" + ", ".join(tla_value(x) for x in sorted(v, key=str)) + "}"
    if isinstance(v, (list, tuple)):
        return "<<" + ", ".join(tla_value(x) for x in v) + ">>"
    raise ValueError(v)


def instantiate(base, name, constants, cfg_lines):
    """Writes <scratch>/<name>.tla (EXTENDS base, constants as definitions) and its cfg."""
    d = os.path.join(scratch(), "inst")
    os.makedirs(d, exist_ok=True)
    mod = os.path.join(d, name + ".tla")
    cfg = os.path.join(d, name + ".cfg")
    with open(mod, "w") as f:
        f.write("---- MODULE %s ----\nEXTENDS %s\n" % (name, base))
        for k, v in constants.items():
            f.write("c_%s == %s\n" % (k, tla_value(v)))
        f.write("====\n")
    with open(cfg, "w") as f:
        f.write("\n".join(cfg_lines) + "\nCONSTANTS\n")
        for k in constants:
            f.write("  %s <- c_%s\n" % (k, k))
    return mod, cfg


def tlc_stats(out):
    m = None
    for m in _STAT.finditer(out):
        pass
    if not m:
        return 0, 0
    return int(m.group(2)), int(m.group(1))  # distinct states, transitions(generated)


def tlc_mc(module, cfg, workers=None, timeout=3600, constants_env=None, xmx=None, coverage=True):
    """Exhaustive model checking.  Returns dict(states, transitions, ok, violated, out)."""
    out = _tlc(module, cfg, workers or min(NCPU, 12), extra_env=constants_env, timeout=timeout,
               extra_args=["-coverage", "1"] if coverage else [], xmx=xmx)
    states, trans = tlc_stats(out)
    violated = re.findall(r"Error: (?:Invariant|Action property|Temporal properties?) ?(\S*) (?:is|was|were) violated", out)
    err = "Error:" in out
    finished = "Model checking completed" in out or "Finished in" in out
    if not finished or (err and not violated):
        log(out[-4000:])
        raise ToolError("TLC failed on %s/%s" % (module, cfg))
    return dict(states=states, transitions=trans, ok=not err, violated=violated, out=out)


def parse_printed_json(out):
    """Lines printed by PrintT(ToJson(..)): a quoted JSON string."""
    res = []
    for line in out.splitlines():
        line = line.strip()
        if line.startswith('"{') or line.startswith('"['):
            q = line
            if q.endswith("  FALSE"):
                q = q[:-7].rstrip()
            try:
                res.append(json.loads(json.loads(q)))
            except Exception:
                pass
    return res


def tlc_trace(module, cfg, trace_path, timeout=3600, extra_env=None):
    """Trace validation.  Returns (reports, stuck_line or None, states)."""
    env = {"TRACE": trace_path}
    if extra_env:
        env.update(extra_env)
    out = _tlc(module, cfg, 1, extra_env=env, dfs=True, xmx="6g", timeout=timeout)
    reps = parse_printed_json(out)
    stuck = None
    for r in reps:
        if isinstance(r, dict) and r.get("tag") == "STUCK":
            stuck = r["line"]
    states, trans = tlc_stats(out)
    other_err = [l for l in out.splitlines() if l.startswith("Error:") and "Postcondition" not in l]
    if other_err or states == 0:
        log(out[-5000:])
        raise ToolError("TLC trace validation failed: %s" % (other_err[:1],))
    return [r for r in reps if isinstance(r, dict) and r.get("tag") == "MISMATCH"], stuck, states


def tlc_gen(module, cfg, workers=1, timeout=3600, simulate=None, extra_env=None):
    """Runs a generator module; returns (list of JSON behaviours, states, transitions)."""
    out = _tlc(module, cfg, workers, timeout=timeout, simulate=simulate, xmx="12g", extra_env=extra_env)
    beh = []
    for line in out.splitlines():
        line = line.strip()
        if line.startswith('"{') or line.startswith('"['):
            try:
                beh.append(json.loads(json.loads(line)))
            except Exception:
                pass
    states, trans = tlc_stats(out)
    if "Error:" in out or not beh:
        log("\n".join(l for l in out.splitlines() if not l.startswith('"'))[-4000:])
        raise ToolError("TLC generator failed: %s/%s" % (module, cfg))
    return beh, states, trans


# ------------------------------------------------------------------------------------------
# known findings, verdicts, evidence
# ------------------------------------------------------------------------------------------

def load_findings():
    p = os.path.join(VERIF, "known_findings.json")
    if not os.path.exists(p):
        return []
    return json.load(open(p))["findings"]


class Verdict:
    """Collects violations of one property check; knows the known-findings file."""

    def __init__(self, prop, out_of_scope=None):
        self.prop = prop
        self.out_of_scope = out_of_scope or (lambda sig: False)
        self._best = {}
        self.skipped = 0
        self.known = [f for f in load_findings() if f.get("status") == "known" and prop in f["properties"]]
        self.violations = []      # (signature dict, replay path)
        self.known_hits = {}      # finding id -> count
        self.t0 = time.time()

    def report(self, sig, replay_obj):
        """sig: dict describing the failing observation (kind + details)."""
        from findings import matches
        if self.out_of_scope(sig):
            self.skipped += 1      # an observation another property's check decides
            return False
        for f in self.known:
            if matches(f, sig):
                self.known_hits[f["id"]] = self.known_hits.get(f["id"], 0) + 1
                return False
        os.makedirs(REPLAYS, exist_ok=True)
        h = hashlib.sha1(json.dumps(sig, sort_keys=True).encode()).hexdigest()[:10]
        path = os.path.join(REPLAYS, "%s-%s.json" % (self.prop, h))
        replay_obj = dict(replay_obj)
        replay_obj["property"] = self.prop
        replay_obj["signature"] = sig
        # one replay file per signature: keep the shortest history seen
        n = len(replay_obj.get("history") or [])
        if path not in self._best or n < self._best[path]:
            self._best[path] = n
            with open(path, "w") as f:
                json.dump(replay_obj, f)
        self.violations.append((sig, path))
        return True

    def finish(self, tier, seed, level, coverage, assumptions):
        for f in self.known:
            if f["id"] in self.known_hits:
                print("KNOWN-FINDING: property=%s %s (%s; seen %d times)" %
                      (self.prop, f["id"], f["what"], self.known_hits[f["id"]]))
        seen = set()
        for sig, path in self.violations:
            if path in seen:
                continue
            seen.add(path)
            print("VIOLATION property=%s replay=%s" % (self.prop, path))
            log("   ", json.dumps(sig)[:600])
        ev = dict(property_id=self.prop, tier=tier, seed=seed, level=level, coverage=coverage,
                  assumptions=assumptions, wall_s=round(time.time() - self.t0, 2),
                  violations=len(seen))
        ev["coverage"]["known_findings_seen"] = self.known_hits
        ev["coverage"]["observations_left_to_other_checks"] = self.skipped
        os.makedirs(EVID, exist_ok=True)
        with open(os.path.join(EVID, "%s.json" % self.prop), "w") as f:
            json.dump(ev, f, indent=1)
        return 1 if seen else 0


def read_lines(path):
    with open(path) as f:
        return f.read().splitlines()
