"""The registered checks, one function per property."""
import json, os, sys, time
from vlib import *
import kv

KV_ASSUME = [
    "TLC and the hand-written correspondence between KVOps!Do and the public API calls issued by harness/src/exec.rs",
    "the projection of results to key/value ids (exec.rs) is faithful; unknown byte strings map to id -1 and can never match",
    "harness built from /repo's working tree with --cfg jammdb_verif, debug assertions and overflow checks on",
]


def not_c05(sig):
    """DB::check() disagreeing is decided by the C05 check (which decodes the pages)"""
    return sig.get("what") == "check"


def mc_kv(tier):
    cfg = "MC_KV.cfg" if tier == "quick" else "MC_KV_thorough.cfg"
    r = tlc_mc("MC_KV", cfg, timeout=3000)
    if not r["ok"]:
        raise ToolError("the L0 specification violates its own properties: %s" % r["violated"])
    return r


def gen_cfg(nkeys, active, fillers, path=(0,), pre=("absent", "kv"), acts=("keep", "put", "del"),
            ends=("commit", "drop", "reopen"), readback=False, nvals=4, qkeys=()):
    return dict(NKeys=nkeys, NVals=nvals, Active=list(active), Fillers=set(fillers), Path=list(path),
                PreKinds=set(pre), Acts=set(acts), Ends=set(ends), ReadBack=readback, QKeys=set(qkeys))


def spread(n_active, n_fill, n_ghost=0):
    """key ids 0..n-1 with the active ones spread evenly between the fillers; ghost keys
    (never present: seek / range probes for absent keys) at both ends and in the middle"""
    n = n_active + n_fill + n_ghost
    ghosts = set()
    if n_ghost >= 1:
        ghosts.add(0)
    if n_ghost >= 2:
        ghosts.add(n - 1)
    step = 1
    while len(ghosts) < n_ghost:
        ghosts.add((n // 2 + step * 3) % n)
        step += 1
    rest = [k for k in range(n) if k not in ghosts]
    m = len(rest)
    idx = sorted(set(int(round((i + 0.5) * m / n_active - 0.5)) for i in range(n_active))) if n_active else []
    act = [rest[i] for i in idx]
    fill = [k for k in rest if k not in act]
    if n_ghost == 0:
        return n, act, fill
    return n, act, fill, sorted(ghosts)


def finish_kv(v, tier, seed, mc, gen_stats, tr, rule):
    cov = dict(states=mc["states"] + tr.get("states", 0) + gen_stats.get("states", 0),
               transitions=mc["transitions"] + tr.get("states", 0) + gen_stats.get("transitions", 0),
               traces_validated_against_impl=tr.get("histories", 0) + gen_stats.get("replays", 0),
               evaluations=tr.get("events", 0) + gen_stats.get("steps", 0),
               distinct_nontrivial=tr.get("distinct", 0) + gen_stats.get("behaviours", 0),
               rule=rule,
               samples=(tr.get("samples") or []) + gen_stats.get("samples", []),
               model=dict(module="MC_KV", states=mc["states"], transitions=mc["transitions"]),
               generated=gen_stats, traces=dict((k, tr.get(k)) for k in ("events", "histories", "states")),
               exhaustive=False)
    return v.finish(tier, seed, "model_checking", cov, KV_ASSUME)


def run_gens(v, gens, tag):
    """gens: list of (name, constants, profiles).  Returns stats."""
    st = dict(behaviours=0, replays=0, steps=0, states=0, transitions=0, samples=[], configs=[])
    for name, consts, profiles in gens:
        beh, s, t = kv.gen_behaviours(name, consts, workers=6)
        n, steps = kv.replay_behaviours(v, beh, profiles, tag + "-" + name)
        st["behaviours"] += len(beh)
        st["replays"] += n
        st["steps"] += steps
        st["states"] += s
        st["transitions"] += t
        st["configs"].append(dict(name=name, behaviours=len(beh), profiles=profiles,
                                  active=consts["Active"], fillers=len(consts["Fillers"]), path=consts["Path"]))
        if len(st["samples"]) < 2:
            b = beh[len(beh) // 2]
            st["samples"].append(dict(pre=b["pre"], act=b["act"], end=b["end"], steps=b["steps"][:6]))
    return st


def check_C01(tier, seed):
    v = Verdict("C01", out_of_scope=not_c05)
    mc = mc_kv(tier)
    gens = []
    if tier == "quick":
        n, act, fill = spread(5, 0)
        gens.append(("kv5", gen_cfg(n, act, fill), ["two", "flat"]))
        n, act, fill = spread(4, 14)
        gens.append(("kv4f14", gen_cfg(n, act, fill), ["three", "two"]))
        n, act, fill = spread(3, 2)
        gens.append(("mix3", gen_cfg(n, act, fill, pre=("absent", "kv", "bucket"),
                                     acts=("keep", "put", "del", "mkb", "delb", "gocb")), ["two", "overflow"]))
        n, act, fill = spread(3, 3)
        gens.append(("nest3", gen_cfg(n, act, fill, path=(0, 2), pre=("absent", "kv", "bucket"),
                                      acts=("keep", "put", "del", "delb")), ["two", "empty"]))
        runs = [dict(profile=p, seed=seed * 100 + i, n=6, len=50, nkeys=12, nvals=4, args=["--readback", "0"])
                for i, p in enumerate(["two", "three", "overflow", "hibytes", "longkey", "empty"])]
    else:
        n, act, fill = spread(7, 0)
        gens.append(("kv7", gen_cfg(n, act, fill), ["two", "flat", "hibytes"]))
        n, act, fill = spread(6, 14)
        gens.append(("kv6f14", gen_cfg(n, act, fill), ["three", "two", "longkey"]))
        n, act, fill = spread(5, 30)
        gens.append(("kv5f30", gen_cfg(n, act, fill), ["three"]))
        n, act, fill = spread(4, 3)
        gens.append(("mix4", gen_cfg(n, act, fill, pre=("absent", "kv", "bucket"),
                                     acts=("keep", "put", "del", "mkb", "delb", "gocb")),
                     ["two", "overflow", "empty"]))
        n, act, fill = spread(4, 6)
        gens.append(("nest4", gen_cfg(n, act, fill, path=(0, 2), pre=("absent", "kv", "bucket"),
                                      acts=("keep", "put", "del", "delb", "mkb")), ["two", "three"]))
        runs = [dict(profile=p, seed=seed * 1000 + i * 10 + j, n=20, len=80, nkeys=nk, nvals=5,
                     args=["--readback", "0"])
                for i, p in enumerate(["two", "three", "overflow", "hibytes", "longkey", "empty", "flat"])
                for j, nk in enumerate([10, 24, 48])]
    gs = run_gens(v, gens, "C01")
    tr = kv.kv_trace_runs(v, runs, "C01")
    return finish_kv(v, tier, seed, mc, gs, tr,
                     "spec->impl: every function Active -> PreKinds x Acts x Ends enumerated by TLC (Gen_KV), each "
                     "behaviour replayed under each profile and every result compared with KVOps!Do; impl->spec: "
                     "seeded random histories recorded and validated by TLC (Trace_KV). distinct_nontrivial = "
                     "generated behaviours + distinct (call, result, profile) triples seen in traces")


def check_C07(tier, seed):
    """read-your-writes: the full read API after every single operation of a write tx"""
    v = Verdict("C07", out_of_scope=not_c05)
    mc = mc_kv(tier)
    gens = []
    if tier == "quick":
        n, act, fill = spread(4, 2)
        gens.append(("rb4", gen_cfg(n, act, fill, readback=True, ends=("commit",)), ["two", "flat"]))
        n, act, fill = spread(3, 14)
        gens.append(("rb3f14", gen_cfg(n, act, fill, readback=True, ends=("commit",)), ["three", "two"]))
        n, act, fill = spread(3, 2)
        gens.append(("rbmix3", gen_cfg(n, act, fill, readback=True, ends=("drop",), pre=("absent", "kv", "bucket"),
                                       acts=("keep", "put", "del", "mkb", "delb")), ["two"]))
        runs = [dict(profile=p, seed=seed * 100 + i, n=5, len=40, nkeys=10, nvals=4, args=["--readback", "1"])
                for i, p in enumerate(["two", "three", "overflow", "hibytes"])]
    else:
        n, act, fill = spread(6, 3)
        gens.append(("rb6", gen_cfg(n, act, fill, readback=True, ends=("commit",)), ["two", "flat", "hibytes"]))
        n, act, fill = spread(5, 16)
        gens.append(("rb5f16", gen_cfg(n, act, fill, readback=True, ends=("commit",)), ["three", "two"]))
        n, act, fill = spread(4, 30)
        gens.append(("rb4f30", gen_cfg(n, act, fill, readback=True, ends=("commit",)), ["three", "longkey"]))
        n, act, fill = spread(4, 3)
        gens.append(("rbmix4", gen_cfg(n, act, fill, readback=True, ends=("drop", "commit"),
                                       pre=("absent", "kv", "bucket"),
                                       acts=("keep", "put", "del", "mkb", "delb", "gocb")), ["two", "overflow"]))
        runs = [dict(profile=p, seed=seed * 1000 + i * 10 + j, n=15, len=60, nkeys=nk, nvals=4,
                     args=["--readback", "1"])
                for i, p in enumerate(["two", "three", "overflow", "hibytes", "longkey", "empty"])
                for j, nk in enumerate([8, 20, 40])]
    gs = run_gens(v, gens, "C07")
    tr = kv.kv_trace_runs(v, runs, "C07")
    return finish_kv(v, tier, seed, mc, gs, tr,
                     "spec->impl: Gen_KV with ReadBack: after every operation of the write transaction the scan, "
                     "counter, seek and get of every active key, four ranges, buckets(), kv_pairs() and the "
                     "after-the-end probe are issued and compared with KVOps!Do on the transaction's view, over every "
                     "function Active -> PreKinds x Acts and tree-shape profiles; impl->spec: random histories with "
                     "read-back after every mutation, validated by TLC")


def check_C08(tier, seed):
    """cursors, seeks, ranges: every seek key and every pair of bounds over the universe"""
    v = Verdict("C08", out_of_scope=not_c05)
    mc = mc_kv(tier)
    gens = []
    if tier == "quick":
        n, act, fill, gh = spread(3, 0, 3)      # empty .. single-leaf buckets
        gens.append(("q3", gen_cfg(n, act, fill, qkeys=range(n), ends=("commit",)), ["flat", "empty"]))
        n, act, fill, gh = spread(3, 4, 3)      # two levels, 2 entries per leaf
        gens.append(("q3f4", gen_cfg(n, act, fill, qkeys=range(n), ends=("commit",)), ["two", "hibytes"]))
        n, act, fill, gh = spread(2, 14, 3)     # three levels
        gens.append(("q2f14", gen_cfg(n, act, fill, qkeys=range(n), ends=("commit",)), ["three"]))
        n, act, fill, gh = spread(3, 2, 2)
        gens.append(("qmix", gen_cfg(n, act, fill, qkeys=range(n), ends=("commit",), pre=("kv", "bucket"),
                                     acts=("keep", "del", "delb")), ["two"]))
        runs = [dict(profile=p, seed=seed * 100 + i, n=5, len=50, nkeys=14, nvals=3, args=["--readback", "1"])
                for i, p in enumerate(["two", "three", "hibytes"])]
    else:
        n, act, fill, gh = spread(4, 0, 4)
        gens.append(("q4", gen_cfg(n, act, fill, qkeys=range(n), ends=("commit", "reopen")), ["flat", "empty", "longkey"]))
        n, act, fill, gh = spread(4, 6, 4)
        gens.append(("q4f6", gen_cfg(n, act, fill, qkeys=range(n), ends=("commit",)), ["two", "hibytes", "overflow"]))
        n, act, fill, gh = spread(3, 16, 3)
        gens.append(("q3f16", gen_cfg(n, act, fill, qkeys=range(n), ends=("commit",)), ["three", "two"]))
        n, act, fill, gh = spread(3, 4, 3)
        gens.append(("qmix", gen_cfg(n, act, fill, qkeys=range(n), ends=("commit",), pre=("absent", "kv", "bucket"),
                                     acts=("keep", "put", "del", "delb", "mkb")), ["two", "three"]))
        runs = [dict(profile=p, seed=seed * 1000 + i * 10 + j, n=15, len=60, nkeys=nk, nvals=3,
                     args=["--readback", "1"])
                for i, p in enumerate(["two", "three", "hibytes", "longkey", "empty", "flat"])
                for j, nk in enumerate([6, 14, 40])]
    gs = run_gens(v, gens, "C08")
    tr = kv.kv_trace_runs(v, runs, "C08")
    return finish_kv(v, tier, seed, mc, gs, tr,
                     "spec->impl: Gen_KV with QKeys: for every function Active -> PreKinds x Acts, mid-transaction and "
                     "after commit: seek and same-cursor re-seek of every universe key (present, absent, below min, "
                     "above max, on leaf/branch boundaries by profile), every (bound kind)^2 x (key)^2 range incl. equal "
                     "and reversed, to_buckets / to_kv_pairs, next() x3 after exhaustion; expected results from "
                     "KVOps!Do (SeekResults allows either neighbour for an absent key); impl->spec: random traces")


def replay(prop, path):
    """Re-executes the history stored in a replay file and prints what the last step yields."""
    r = json.load(open(path))
    build_harness()
    hist = r.get("history")
    if hist is None:
        print("replay file has no history")
        return 2
    prof = r.get("profile") or r.get("run", {}).get("profile", "two")
    nk = r.get("nk") or r.get("run", {}).get("nkeys", 16)
    nv = r.get("nv") or r.get("run", {}).get("nvals", 4)
    if r.get("allowed") is not None and hist:
        hist = [dict(s) for s in hist]
        hist[-1]["exp"] = r["allowed"]
        for s in hist[:-1]:
            s.pop("exp", None)
            s["exp_any"] = True
    d = scratch()
    fn = os.path.join(d, "replay.ndjson")
    with open(fn, "w") as f:
        f.write(json.dumps({"id": 0, "nk": nk, "nv": nv, "steps": hist, "lenient": True}) + "\n")
    extra = r.get("args") or r.get("run", {}).get("args", [])
    extra = [x for x in extra if x not in ("--readback", "0", "1")] if "--readback" in extra else extra
    p = run_jvh(["replay", "--in", fn, "--profile", prof, "--out", fn + ".out", "--lenient", "1"] + list(extra))
    out = read_lines(fn + ".out") if os.path.exists(fn + ".out") else []
    for ln in out:
        print(ln)
    if p.returncode != 0:
        print("VIOLATION property=%s replay=%s" % (prop, path))
        return 1
    devs = [json.loads(x) for x in out if '"dev"' in x]
    if devs:
        print("VIOLATION property=%s replay=%s" % (prop, path))
        return 1
    print("replay: the recorded deviation does not occur on this tree")
    return 0
