"""The registered checks, one function per property."""
import json, os, sys, time
from vlib import *
import kv
import bt

KV_ASSUME = [
    "TLC and the hand-written correspondence between KVOps!Do and the public API calls issued by harness/src/exec.rs",
    "the projection of results to key/value ids (exec.rs) is faithful; unknown byte strings map to id -1 and can never match",
    "harness built from /repo's working tree with --cfg jammdb_verif, debug assertions and overflow checks on",
]


def not_c05(sig):
    """DB::check() disagreeing is decided by the C05 check (which decodes the pages)"""
    return sig.get("what") == "check"


def mc_kv(tier):
    cfg = "MC_KV.cfg" if tier == "quick" else "MC_KV_thorough.cfg"
    r = tlc_mc("MC_KV", cfg, timeout=14400)
    if not r["ok"]:
        raise ToolError("the L0 specification violates its own properties: %s" % r["violated"])
    return r


def gen_cfg(nkeys, active, fillers, path=(0,), pre=("absent", "kv"), acts=("keep", "put", "del"),
            ends=("commit", "drop", "reopen"), readback=False, nvals=4, qkeys=(), tails=("none",), nestfill=()):
    return dict(NKeys=nkeys, NVals=nvals, Active=list(active), Fillers=set(fillers), NestFill=set(nestfill),
                Path=list(path),
                PreKinds=set(pre), Acts=set(acts), Ends=set(ends), ReadBack=readback, QKeys=set(qkeys),
                Tails=set(tails))


def spread(n_active, n_fill, n_ghost=0):
    """key ids 0..n-1 with the active ones spread evenly between the fillers; ghost keys
    (never present: seek / range probes for absent keys) at both ends and in the middle"""
    n = n_active + n_fill + n_ghost
    ghosts = set()
    if n_ghost >= 1:
        ghosts.add(0)
    if n_ghost >= 2:
        ghosts.add(n - 1)
    step = 1
    while len(ghosts) < n_ghost:
        ghosts.add((n // 2 + step * 3) % n)
        step += 1
    rest = [k for k in range(n) if k not in ghosts]
    m = len(rest)
    idx = sorted(set(int(round((i + 0.5) * m / n_active - 0.5)) for i in range(n_active))) if n_active else []
    act = [rest[i] for i in idx]
    fill = [k for k in rest if k not in act]
    if n_ghost == 0:
        return n, act, fill
    return n, act, fill, sorted(ghosts)


def cluster(n_active, n_fill, where):
    """the active keys are consecutive: the smallest ("head"), the largest ("tail") or the middle ones
    ("mid") -- whole leaves, and the left-most / right-most leaf in particular, can be emptied"""
    n = n_active + n_fill
    lo = {"head": 0, "tail": n - n_active, "mid": (n - n_active) // 2}[where]
    act = list(range(lo, lo + n_active))
    return n, act, [k for k in range(n) if k not in act]


def add_btree(cov, btree):
    if btree:
        cov["btree"] = btree
        cov["states"] += btree["states"]
        cov["transitions"] += btree["transitions"]
        cov["traces_validated_against_impl"] += btree["replays"]
        cov["rule"] += BT_RULE
    return cov


BT_RULE = (" BTree.tla leg: the rebalance / spill code transcribed operator by operator; MC_BTree checks every history of "
           "<= MaxOps put/delete per transaction and <= MaxTx transactions over seed trees of up to three levels (commit never "
           "panics, the new tree lists exactly the reference map, is a search tree, shares / leaks / re-references no page; "
           "get and cursor scan inside the transaction equal the reference map); the pinned code's variants of the model "
           "must violate (vacuity guards); every generated history is run in the real code against the reference map, and the "
           "page structure the independent parser finds in the file is compared with the one the model computed "
           "(a differing structure is judged by Trace_Shape, not reported by itself).")


def finish_kv(v, tier, seed, mc, gen_stats, tr, rule, btree=None):
    cov = dict(states=mc["states"] + tr.get("states", 0) + gen_stats.get("states", 0),
               transitions=mc["transitions"] + tr.get("states", 0) + gen_stats.get("transitions", 0),
               traces_validated_against_impl=tr.get("histories", 0) + gen_stats.get("replays", 0),
               evaluations=tr.get("events", 0) + gen_stats.get("steps", 0),
               distinct_nontrivial=tr.get("distinct", 0) + gen_stats.get("behaviours", 0),
               rule=rule,
               samples=(tr.get("samples") or []) + gen_stats.get("samples", []),
               model=dict(module="MC_KV", states=mc["states"], transitions=mc["transitions"]),
               generated=gen_stats, traces=dict((k, tr.get(k)) for k in ("events", "histories", "states")),
               exhaustive=False)
    add_btree(cov, btree)
    return v.finish(tier, seed, "model_checking", cov, KV_ASSUME)


def run_gens(v, gens, tag):
    """gens: list of (name, constants, profiles).  Returns stats."""
    st = dict(behaviours=0, replays=0, steps=0, states=0, transitions=0, samples=[], configs=[])
    for name, consts, profiles in gens:
        beh, s, t = kv.gen_behaviours(name, consts, workers=6)
        # DB::check() steps belong to C05 (which replays them with page decoding); here a failing
        # check must not hide what the following calls return
        for b in beh:
            b["steps"] = [x for x in b["steps"] if x.get("a") != "check"]
        n, steps = kv.replay_behaviours(v, beh, profiles, tag + "-" + name)
        st["behaviours"] += len(beh)
        st["replays"] += n
        st["steps"] += steps
        st["states"] += s
        st["transitions"] += t
        st["configs"].append(dict(name=name, behaviours=len(beh), profiles=profiles,
                                  active=consts["Active"], fillers=len(consts["Fillers"]), path=consts["Path"]))
        if len(st["samples"]) < 2:
            b = beh[len(beh) // 2]
            st["samples"].append(dict(pre=b["pre"], act=b["act"], end=b["end"], steps=b["steps"][:6]))
    return st


def check_C01(tier, seed):
    v = Verdict("C01", out_of_scope=not_c05)
    mc = mc_kv(tier)
    gens = []
    if tier == "quick":
        n, act, fill = spread(5, 0)
        gens.append(("kv5", gen_cfg(n, act, fill), ["two", "flat"]))
        n, act, fill = spread(4, 14)
        gens.append(("kv4f14", gen_cfg(n, act, fill), ["three", "two"]))
        n, act, fill = spread(3, 2)
        gens.append(("mix3", gen_cfg(n, act, fill, pre=("absent", "kv", "bucket"),
                                     acts=("keep", "put", "del", "mkb", "delb", "gocb", "stale")), ["two", "overflow"]))
        n, act, fill = spread(3, 3)
        gens.append(("nest3", gen_cfg(n, act, fill, path=(0, 2), pre=("absent", "kv", "bucket"),
                                      acts=("keep", "put", "del", "delb")), ["two", "empty"]))
        # a modified nested bucket below interior nodes that merge: 3-level parent, deletes around it
        act = [9, 10, 11, 12, 14, 15, 16, 17]
        gens.append(("nfc8", gen_cfg(28, act, [k for k in range(28) if k not in act], pre=("kv",),
                                     acts=("keep", "del"), ends=("commit",), nestfill=[13, 3]), ["three"]))
        # every leaf below an interior node emptied in one transaction (8 consecutive keys of a 3-level tree)
        act = list(range(8, 16))
        gens.append(("run8", gen_cfg(28, act, [k for k in range(28) if k not in act], pre=("kv",),
                                     acts=("keep", "del"), ends=("commit",)), ["three"]))
        for where in ("head", "tail"):
            n, act, fill = cluster(4, 6, where)
            gens.append((where + "4", gen_cfg(n, act, fill, pre=("kv",), acts=("keep", "del"),
                                              ends=("commit", "reopen")), ["two"]))
        # one transaction that needs more than one 8 MiB extension step of the file
        n, act, fill = spread(4, 0)
        gens.append(("grow4", gen_cfg(n, act, fill, pre=("kv",), acts=("keep", "put"), ends=("commit", "reopen")),
                     ["huge"]))
        runs = [dict(profile=p, seed=seed * 100 + i, n=6, len=50, nkeys=12, nvals=4, args=["--readback", "0"])
                for i, p in enumerate(["two", "three", "overflow", "hibytes", "longkey", "empty"])]
        # one transaction that grows the file by more than one 8 MiB extension step
        runs.append(dict(profile="huge", seed=seed * 100 + 50, n=3, len=25, nkeys=8, nvals=4,
                         args=["--readback", "0", "--presized", "0"]))
    else:
        n, act, fill = spread(7, 0)
        gens.append(("kv7", gen_cfg(n, act, fill), ["two", "flat", "hibytes"]))
        n, act, fill = spread(6, 14)
        gens.append(("kv6f14", gen_cfg(n, act, fill), ["three", "two", "longkey"]))
        n, act, fill = spread(5, 30)
        gens.append(("kv5f30", gen_cfg(n, act, fill), ["three"]))
        n, act, fill = spread(4, 3)
        gens.append(("mix4", gen_cfg(n, act, fill, pre=("absent", "kv", "bucket"),
                                     acts=("keep", "put", "del", "mkb", "delb", "gocb", "stale")),
                     ["two", "overflow", "empty"]))
        n, act, fill = spread(4, 6)
        gens.append(("nest4", gen_cfg(n, act, fill, path=(0, 2), pre=("absent", "kv", "bucket"),
                                      acts=("keep", "put", "del", "delb", "mkb")), ["two", "three"]))
        runs = [dict(profile=p, seed=seed * 1000 + i * 10 + j, n=20, len=80, nkeys=nk, nvals=5,
                     args=["--readback", "0"])
                for i, p in enumerate(["two", "three", "overflow", "hibytes", "longkey", "empty", "flat"])
                for j, nk in enumerate([10, 24, 48])]
    gs = run_gens(v, gens, "C01")
    tr = kv.kv_trace_runs(v, runs, "C01")
    if tier == "quick":
        btree = bt.legs(v, "C01", readback=False,
                        mcs=[("e7", 7, [], 3, 3, {})],
                        gens=[("inc14", 15, bt.seed_inc(14), 3, 1, {}),
                              ("bulk14", 15, bt.seed_bulk(14), 2, 1, {}),
                              # root collapse: every child of the root but one emptied, the survivor loaded or not
                              ("inc5d4", 6, bt.seed_inc(5), 4, 1, dict(kinds=("del",))),
                              ("inc9d5", 10, bt.seed_inc(9), 5, 1, dict(kinds=("del",))),
                              # nested buckets touched next to merging leaves (their entries are rewritten at spill)
                              ("nest14", 15, bt.seed_nested(14, (5, 10)), 3, 1, dict(kinds=("del", "touch", "delb", "mkb")))])
    else:
        btree = bt.legs(v, "C01", readback=False,
                        mcs=[("e8", 8, [], 3, 3, {}), ("inc14o4", 15, bt.seed_inc(14), 4, 1, {}),
                             ("inc14d6", 15, bt.seed_inc(14), 6, 1, dict(kinds=("del",)))],
                        gens=[("inc14", 15, bt.seed_inc(14), 3, 1, {}),
                              ("inc14x2", 15, bt.seed_inc(14), 2, 2, {}),
                              ("bulk14", 15, bt.seed_bulk(14), 3, 1, {}),
                              ("dec12", 13, bt.seed_dec(12), 2, 2, {}),
                              ("sparse", 15, bt.seed_sparse(14, [2, 3, 5, 9, 12]), 3, 1, {}),
                              ("nest14", 15, bt.seed_nested(14, (5, 10)), 3, 1,
                               dict(kinds=("del", "touch", "delb", "mkb", "put"))),
                              ("nest14d4", 15, bt.seed_nested(14, (1, 7, 10, 14)), 4, 1, dict(kinds=("del", "touch"))),
                              ("walk", 16, [], 4, 8, dict(simulate="num=3000", workers=1,
                                                          kinds=("put", "del", "mkb", "touch", "delb")))])
    return finish_kv(v, tier, seed, mc, gs, tr, btree=btree, rule=
                     "spec->impl: every function Active -> PreKinds x Acts x Ends enumerated by TLC (Gen_KV), each "
                     "behaviour replayed under each profile and every result compared with KVOps!Do; impl->spec: "
                     "seeded random histories recorded and validated by TLC (Trace_KV). distinct_nontrivial = "
                     "generated behaviours + distinct (call, result, profile) triples seen in traces")


def check_C07(tier, seed):
    """read-your-writes: the full read API after every single operation of a write tx"""
    v = Verdict("C07", out_of_scope=not_c05)
    mc = mc_kv(tier)
    gens = []
    if tier == "quick":
        n, act, fill = spread(4, 2)
        gens.append(("rb4", gen_cfg(n, act, fill, readback=True, ends=("commit",)), ["two", "flat"]))
        n, act, fill = spread(3, 14)
        gens.append(("rb3f14", gen_cfg(n, act, fill, readback=True, ends=("commit",)), ["three", "two"]))
        n, act, fill = spread(3, 2)
        gens.append(("rbmix3", gen_cfg(n, act, fill, readback=True, ends=("drop",), pre=("absent", "kv", "bucket"),
                                       acts=("keep", "put", "del", "mkb", "delb")), ["two"]))
        # whole leaves emptied inside the transaction, the left-most and the right-most one in particular
        for where in ("head", "tail"):
            n, act, fill = cluster(4, 6, where)
            gens.append(("rb" + where + "4", gen_cfg(n, act, fill, readback=True, ends=("commit",), pre=("kv",),
                                                     acts=("keep", "del")), ["two", "three"]))
        runs = [dict(profile=p, seed=seed * 100 + i, n=5, len=40, nkeys=10, nvals=4, args=["--readback", "1"])
                for i, p in enumerate(["two", "three", "overflow", "hibytes"])]
    else:
        n, act, fill = spread(6, 3)
        gens.append(("rb6", gen_cfg(n, act, fill, readback=True, ends=("commit",)), ["two", "flat", "hibytes"]))
        n, act, fill = spread(5, 16)
        gens.append(("rb5f16", gen_cfg(n, act, fill, readback=True, ends=("commit",)), ["three", "two"]))
        n, act, fill = spread(4, 30)
        gens.append(("rb4f30", gen_cfg(n, act, fill, readback=True, ends=("commit",)), ["three", "longkey"]))
        n, act, fill = spread(4, 3)
        gens.append(("rbmix4", gen_cfg(n, act, fill, readback=True, ends=("drop", "commit"),
                                       pre=("absent", "kv", "bucket"),
                                       acts=("keep", "put", "del", "mkb", "delb", "gocb")), ["two", "overflow"]))
        for where in ("head", "tail", "mid"):
            n, act, fill = cluster(6, 10, where)
            gens.append(("rb" + where + "6", gen_cfg(n, act, fill, readback=True, ends=("commit",), pre=("kv",),
                                                     acts=("keep", "del", "put")), ["two", "three", "flat"]))
        runs = [dict(profile=p, seed=seed * 1000 + i * 10 + j, n=15, len=60, nkeys=nk, nvals=4,
                     args=["--readback", "1"])
                for i, p in enumerate(["two", "three", "overflow", "hibytes", "longkey", "empty"])
                for j, nk in enumerate([8, 20, 40])]
    gs = run_gens(v, gens, "C07")
    tr = kv.kv_trace_runs(v, runs, "C07")
    if tier == "quick":
        btree = bt.legs(v, "C07", readback=True,
                        gens=[("head", 15, bt.seed_inc(14), 3, 1, dict(opkeys=range(1, 7))),
                              ("tail", 15, bt.seed_inc(14), 3, 1, dict(opkeys=range(9, 16))),
                              ("e6", 6, [], 3, 2, {})])
    else:
        btree = bt.legs(v, "C07", readback=True,
                        mcs=[("inc14o4", 15, bt.seed_inc(14), 4, 1, {})],
                        gens=[("inc14", 15, bt.seed_inc(14), 3, 1, {}),
                              ("head5", 15, bt.seed_inc(14), 5, 1, dict(opkeys=range(1, 7), kinds=("del",))),
                              ("tail5", 15, bt.seed_inc(14), 5, 1, dict(opkeys=range(9, 15), kinds=("del",))),
                              ("mid5", 15, bt.seed_inc(14), 5, 1, dict(opkeys=range(4, 10), kinds=("del",))),
                              ("bulk14", 15, bt.seed_bulk(14), 3, 1, {}),
                              ("e7", 7, [], 3, 3, {}),
                              ("walk", 16, [], 4, 8, dict(simulate="num=3000", workers=1))])
    return finish_kv(v, tier, seed, mc, gs, tr, btree=btree, rule=
                     "spec->impl: Gen_KV with ReadBack: after every operation of the write transaction the scan, "
                     "counter, seek and get of every active key, four ranges, buckets(), kv_pairs() and the "
                     "after-the-end probe are issued and compared with KVOps!Do on the transaction's view, over every "
                     "function Active -> PreKinds x Acts and tree-shape profiles; impl->spec: random histories with "
                     "read-back after every mutation, validated by TLC")


def check_C08(tier, seed):
    """cursors, seeks, ranges: every seek key and every pair of bounds over the universe"""
    v = Verdict("C08", out_of_scope=not_c05)
    mc = mc_kv(tier)
    gens = []
    if tier == "quick":
        n, act, fill, gh = spread(3, 0, 3)      # empty .. single-leaf buckets
        gens.append(("q3", gen_cfg(n, act, fill, qkeys=range(n), ends=("commit",)), ["flat", "empty"]))
        n, act, fill, gh = spread(3, 4, 3)      # two levels, 2 entries per leaf
        gens.append(("q3f4", gen_cfg(n, act, fill, qkeys=range(n), ends=("commit",)), ["two", "hibytes"]))
        n, act, fill, gh = spread(2, 14, 3)     # three levels
        gens.append(("q2f14", gen_cfg(n, act, fill, qkeys=range(n), ends=("commit",)), ["three"]))
        n, act, fill, gh = spread(3, 2, 2)
        gens.append(("qmix", gen_cfg(n, act, fill, qkeys=range(n), ends=("commit",), pre=("kv", "bucket"),
                                     acts=("keep", "del", "delb")), ["two"]))
        for where in ("head", "tail"):
            n, act, fill = cluster(3, 5, where)
            gens.append(("q" + where + "3", gen_cfg(n, act, fill, qkeys=range(n), ends=("commit",), pre=("kv",),
                                                    acts=("keep", "del")), ["two"]))
        runs = [dict(profile=p, seed=seed * 100 + i, n=5, len=50, nkeys=14, nvals=3, args=["--readback", "1"])
                for i, p in enumerate(["two", "three", "hibytes"])]
    else:
        n, act, fill, gh = spread(4, 0, 4)
        gens.append(("q4", gen_cfg(n, act, fill, qkeys=range(n), ends=("commit", "reopen")), ["flat", "empty", "longkey"]))
        n, act, fill, gh = spread(4, 6, 4)
        gens.append(("q4f6", gen_cfg(n, act, fill, qkeys=range(n), ends=("commit",)), ["two", "hibytes", "overflow"]))
        n, act, fill, gh = spread(3, 16, 3)
        gens.append(("q3f16", gen_cfg(n, act, fill, qkeys=range(n), ends=("commit",)), ["three", "two"]))
        n, act, fill, gh = spread(3, 4, 3)
        gens.append(("qmix", gen_cfg(n, act, fill, qkeys=range(n), ends=("commit",), pre=("absent", "kv", "bucket"),
                                     acts=("keep", "put", "del", "delb", "mkb")), ["two", "three"]))
        for where in ("head", "tail", "mid"):
            n, act, fill = cluster(4, 8, where)
            gens.append(("q" + where + "4", gen_cfg(n, act, fill, qkeys=range(n), ends=("commit",), pre=("kv",),
                                                    acts=("keep", "del", "put")), ["two", "three"]))
        runs = [dict(profile=p, seed=seed * 1000 + i * 10 + j, n=15, len=60, nkeys=nk, nvals=3,
                     args=["--readback", "1"])
                for i, p in enumerate(["two", "three", "hibytes", "longkey", "empty", "flat"])
                for j, nk in enumerate([6, 14, 40])]
    gs = run_gens(v, gens, "C08")
    tr = kv.kv_trace_runs(v, runs, "C08")
    # BTree.tla: seek / step back / iteration over pages and in-transaction nodes, SeekYourWrites for every key
    sk = dict(invs=bt.SEEK_INVS)
    g14 = ("f14", 15, bt.seed_inc(14), 3, ["F14"], dict(invs=bt.SEEK_INVS))
    g2 = ("f2", 15, bt.seed_inc(14), 3, ["F2"], dict(invs=bt.SEEK_INVS))
    # ranges with both bounds in the part of the tree the operations touch (all nine combinations of bound kinds)
    rt = dict(invs=bt.RANGE_INVS, opkeys=range(9, 16))
    rh = dict(invs=bt.RANGE_INVS, opkeys=range(1, 7))
    if tier == "quick":
        btree = bt.legs(v, "C08", readback=True,
                        mcs=[("seek14o3", 15, bt.seed_inc(14), 3, 1, sk), ("seeke6", 6, [], 3, 2, sk),
                             ("range14t", 15, bt.seed_inc(14), 3, 1, rt), ("range14h", 15, bt.seed_inc(14), 3, 1, rh)],
                        guards=[g14, g2],
                        gens=[("tail", 15, bt.seed_inc(14), 3, 1, dict(opkeys=range(9, 16))),
                              ("head", 15, bt.seed_inc(14), 3, 1, dict(opkeys=range(1, 7)))])
    else:
        btree = bt.legs(v, "C08", readback=True,
                        mcs=[("seek14o4", 15, bt.seed_inc(14), 4, 1, sk), ("seeke7", 7, [], 3, 3, sk),
                             ("seek14d6", 15, bt.seed_inc(14), 6, 1, dict(invs=bt.SEEK_INVS, kinds=("del",))),
                             ("range14t", 15, bt.seed_inc(14), 4, 1, rt), ("range14h", 15, bt.seed_inc(14), 4, 1, rh),
                             ("rangee6", 6, [], 3, 2, dict(invs=bt.RANGE_INVS))],
                        guards=[g14, g2],
                        gens=[("inc14", 15, bt.seed_inc(14), 3, 1, {}),
                              ("tail5", 15, bt.seed_inc(14), 5, 1, dict(opkeys=range(9, 15), kinds=("del",))),
                              ("head5", 15, bt.seed_inc(14), 5, 1, dict(opkeys=range(1, 7), kinds=("del",))),
                              ("sparse", 15, bt.seed_sparse(14, [2, 3, 5, 9, 12]), 3, 1, {}),
                              ("walk", 16, [], 4, 8, dict(simulate="num=2000", workers=1))])
    return finish_kv(v, tier, seed, mc, gs, tr, btree=btree, rule=
                     "spec->impl: Gen_KV with QKeys: for every function Active -> PreKinds x Acts, mid-transaction and "
                     "after commit: seek and same-cursor re-seek of every universe key (present, absent, below min, "
                     "above max, on leaf/branch boundaries by profile), every (bound kind)^2 x (key)^2 range incl. equal "
                     "and reversed, to_buckets / to_kv_pairs, next() x3 after exhaustion; expected results from "
                     "KVOps!Do (SeekResults allows either neighbour for an absent key); impl->spec: random traces")


L1_ASSUME = KV_ASSUME + [
    "the in-binary libc interposer (harness/src/iohook.rs) sees every write / fsync on the database file",
    "harness/src/parse.rs decodes the pinned on-disk layout faithfully (it judges nothing: all predicates are TLA+)",
    "hook points are add-only and sit where DESIGN.md 4.1 says",
]


def l1_runs(v, runs, tag, stats, scope=None, sync_rule=None):
    import l1
    for r in runs:
        tf, p = l1.record_random(r, tag)
        if p.returncode != 0:
            lines = read_lines(tf) if os.path.exists(tf) else []
            hist = kv.history_of(lines, len(lines)) if lines else []
            v.report({"kind": "hang" if p.returncode == 86 else "abort", "rc": p.returncode, "profile": r["profile"]},
                     {"run": r, "history": kv.to_steps(hist), "stderr": p.stderr[-1500:]})
            try:
                json.loads(lines[-1])
            except Exception:
                open(tf, "w").write("\n".join(lines[:-1]) + "\n")
        st = l1.page_trace(v, tf, r, scope=scope, sync_rule=sync_rule)
        for k in ("events", "states", "writes", "commits"):
            stats[k] = stats.get(k, 0) + st[k]
        stats["traces"] = stats.get("traces", 0) + r["n"]
        if len(stats.setdefault("samples", [])) < 2:
            lines = read_lines(tf)
            ws = [json.loads(x) for x in lines if '"ev":"write"' in x][:3]
            stats["samples"].append(ws)
        os.remove(tf)


L1_GEN_MAX = 2000       # behaviours recorded per (configuration, profile): a recorded behaviour is ~200 trace lines
L1_GEN_CHUNK = 1000     # ... per TLC run (Trace_Page holds the whole trace in memory)


def l1_gens(v, gens, tag, stats, scope=None, sync_rule=None):
    import l1
    for name, consts, profiles in gens:
        allbeh, s, t = kv.gen_behaviours(name, consts, workers=6)
        stats["states"] = stats.get("states", 0) + s
        step = (len(allbeh) + L1_GEN_MAX - 1) // L1_GEN_MAX
        beh_sel = allbeh[::max(1, step)]
        for prof in profiles:
            for c0 in range(0, len(beh_sel), L1_GEN_CHUNK):
                beh = beh_sel[c0:c0 + L1_GEN_CHUNK]
                tf, res, p = l1.record_behaviours(beh, prof, tag + "-" + name)
                if p.returncode != 0:
                    v.report({"kind": "hang" if p.returncode == 86 else "abort", "rc": p.returncode, "profile": prof,
                              "gen": name}, {"profile": prof, "gen": name, "stderr": p.stderr[-1500:]})
                for ln in res:
                    o = json.loads(ln)
                    if o.get("summary"):
                        stats["replays"] = stats.get("replays", 0) + o["histories"]
                        continue
                    hist = beh[o["line"]]
                    sig = kv.replay_sig(o["dev"], hist)
                    sig["profile"] = prof
                    if scope and not scope(sig):
                        v.skipped += 1
                        continue
                    v.report(sig, {"profile": prof, "history": hist["steps"][:o["dev"]["step"] + 1], "nk": hist.get("nk"),
                                   "nv": hist.get("nv"), "got": o["dev"]["got"], "allowed": o["dev"]["exp"],
                                   "panic": o["dev"].get("panic")})
                st = l1.page_trace(v, tf, {"profile": prof, "gen": name, "nkeys": consts["NKeys"], "nvals": consts["NVals"]},
                                   also_kv=False, scope=scope, sync_rule=sync_rule)
                for k in ("events", "states", "writes", "commits"):
                    stats[k] = stats.get(k, 0) + st[k]
                stats["behaviours"] = stats.get("behaviours", 0) + len(beh)
                os.remove(tf)
        stats.setdefault("configs", []).append(dict(name=name, behaviours=len(allbeh), recorded=len(beh_sel), profiles=profiles))


def mc_page(tier, parts=("crash", "readers", "faults", "damage"), sensitive=(), deep=None):
    """Model-checks PageStore (the protocol as repaired in /repo) on the focused configurations.
    `sensitive`: (config, invariant) pairs that MUST be violated (the pinned protocol variants):
    a vacuity guard -- if the model cannot see the defect it cannot vouch for its absence."""
    tot = dict(states=0, transitions=0, configs=[])
    for p in parts:
        # deep: the parts that get the thorough configuration in the thorough tier (default: all); each thorough
        # configuration takes 5-30 minutes on 10 workers
        suffix = "fixed_thorough" if tier != "quick" and (deep is None or p in deep) else "fixed"
        cfg = "MC_Page_%s_%s.cfg" % (p, suffix)
        if not os.path.exists(os.path.join(SPEC, cfg)):
            cfg = "MC_Page_%s_fixed.cfg" % p
        r = tlc_mc("PageStore", cfg, timeout=14400, workers=10)
        if not r["ok"]:
            raise ToolError("PageStore/%s violates %s" % (cfg, r["violated"]))
        tot["states"] += r["states"]
        tot["transitions"] += r["transitions"]
        tot["configs"].append(dict(cfg=cfg, states=r["states"], transitions=r["transitions"]))
    for cfg, inv in sensitive:
        r = tlc_mc("PageStore", cfg, timeout=1200, workers=10)
        if r["ok"] or inv not in " ".join(r["violated"]):
            raise ToolError("vacuity guard: %s should violate %s but TLC says %s" % (cfg, inv, r["violated"] or "no error"))
        tot["configs"].append(dict(cfg=cfg, expected_violation=inv, found=True))
    return tot


def finish_l1(v, tier, seed, mc, stats, rule, btree=None):
    cov = dict(states=mc["states"] + stats.get("states", 0), transitions=mc["transitions"] + stats.get("events", 0),
               traces_validated_against_impl=stats.get("traces", 0) + stats.get("replays", 0),
               evaluations=stats.get("events", 0), distinct_nontrivial=stats.get("commits", 0),
               rule=rule + " distinct_nontrivial = commits whose every page write was decoded and checked",
               samples=stats.get("samples") or [stats.get("configs")],
               model=dict(module="PageStore", states=mc["states"], transitions=mc["transitions"]),
               recorded=dict((k, stats.get(k)) for k in ("events", "writes", "commits", "traces", "replays", "behaviours",
                                                          "strict_probe") if stats.get(k) is not None),
               generated=stats.get("configs"), exhaustive=False)
    add_btree(cov, btree)
    return v.finish(tier, seed, "model_checking", cov, L1_ASSUME)


def c05_scope(sig):
    """C05 decides structure / accounting / DB::check; logical results are C01's business"""
    if sig.get("kind") == "l1":
        return sig["rule"] not in ("header-before-data-sync", "publish-before-header", "commit-ok-before-header-sync",
                                   "release-bound", "must-release",
                                   "reader-page-released")
    if sig.get("kind") == "kv":
        return sig.get("what") == "check"
    return True


def check_C05(tier, seed):
    v = Verdict("C05")
    mc = mc_page(tier, deep=("crash", "readers"))
    stats = {}
    gens = []
    if tier == "quick":
        n, act, fill = spread(2, 2)
        gens.append(("nd2", gen_cfg(n, act, fill, pre=("kv", "bucket", "nest"), ends=("commit",),
                                    acts=("keep", "delb", "delsub", "delsubdelb", "delbmkb", "delbput"),
                                    tails=("none", "delpath", "delpathmk")), ["two", "overflow"]))
        n, act, fill = spread(2, 3)
        gens.append(("nd2d2", gen_cfg(n, act, fill, path=(0, 1), pre=("kv", "nest"), ends=("commit",),
                                      acts=("keep", "put", "delsub", "delsubdelb", "delbmkb"),
                                      tails=("none", "delpath", "delpathmk")), ["two"]))
        n, act, fill = spread(3, 14)
        gens.append(("kv3f14", gen_cfg(n, act, fill, ends=("commit",)), ["three"]))
        # a bucket of 8 keys deleted as a whole: with 300-byte keys its root is a branch page with an overflow page
        n, act, fill = spread(2, 6)
        gens.append(("delbig", gen_cfg(n, act, fill, pre=("kv",), acts=("keep", "put"), ends=("commit",),
                                       tails=("delpath", "delpathmk")), ["three", "longkey"]))
        runs = [dict(profile=p, seed=seed * 100 + i, n=4, len=50, nkeys=12, nvals=4, args=["--readback", "0"])
                for i, p in enumerate(["two", "three", "overflow", "longkey"])]
    else:
        n, act, fill = spread(4, 2)
        gens.append(("nd4", gen_cfg(n, act, fill, pre=("kv", "bucket", "nest"), ends=("commit", "reopen"),
                                    acts=("keep", "delb", "delsub", "delsubdelb", "delbmkb", "delbput"),
                                    tails=("none", "delpath", "delpathmk")), ["two", "overflow"]))
        n, act, fill = spread(3, 3)
        gens.append(("nd3d2", gen_cfg(n, act, fill, path=(0, 1), pre=("kv", "bucket", "nest"), ends=("commit",),
                                      acts=("keep", "put", "delsub", "delsubdelb", "delbmkb", "delb"),
                                      tails=("none", "delpath", "delpathmk")), ["two", "three"]))
        n, act, fill = spread(6, 14)
        gens.append(("kv6f14", gen_cfg(n, act, fill, ends=("commit",)), ["three", "longkey"]))
        n, act, fill = spread(5, 30)
        gens.append(("kv5f30", gen_cfg(n, act, fill, ends=("commit",)), ["three"]))
        n, act, fill = spread(3, 9)
        gens.append(("delbig", gen_cfg(n, act, fill, pre=("kv",), acts=("keep", "put", "del"), ends=("commit", "reopen"),
                                       tails=("delpath", "delpathmk")), ["three", "longkey", "overflow"]))
        runs = [dict(profile=p, seed=seed * 1000 + i * 10 + j, n=8, len=70, nkeys=nk, nvals=5, args=["--readback", "0"])
                for i, p in enumerate(["two", "three", "overflow", "longkey", "hibytes", "empty"])
                for j, nk in enumerate([10, 30])]
    l1_gens(v, gens, "C05", stats, scope=c05_scope)
    l1_runs(v, runs, "C05", stats, scope=c05_scope)
    # a free list that spans more than one page, persisted, reloaded at reopen and persisted again
    import l1
    for nk, cycles in ([(64, 5)] if tier == "quick" else [(64, 20), (120, 8)]):
        tf = os.path.join(scratch(), "C05-bigfree-%d.ndjson" % nk)
        run = dict(kind="bucketdel", profile="overflow", nkeys=nk, nvals=6, cycles=cycles, extra=["--decode", "1", "--reopen-every", "1"])
        p = run_jvh(["workload", "--kind", "bucketdel", "--cycles", cycles, "--profile", "overflow", "--nkeys", nk, "--nvals", 6,
                     "--out", tf, "--decode", "1", "--reopen-every", "1", "--num-pages", "4"], timeout=3000)
        if p.returncode != 0:
            v.report({"kind": "hang" if p.returncode == 86 else "abort", "rc": p.returncode, "workload": "bigfree"},
                     {"run": run, "stderr": p.stderr[-1500:]})
        st1 = l1.page_trace(v, tf, run, also_kv=False, scope=c05_scope, sync_rule="1")
        for k in ("events", "states", "writes", "commits"):
            stats[k] = stats.get(k, 0) + st1.get(k, 0)
        stats["traces"] = stats.get("traces", 0) + 1
        os.remove(tf)
    f1 = ("f1", 8, bt.seed_inc(5), 4, ["F1"], {})
    f13 = ("f13", 15, bt.seed_inc(14), 6, ["F13"], dict(kinds=("del",), opkeys=range(9, 15)))
    f6 = ("f6", 15, bt.seed_nested(14, (5, 10)), 4, ["F6"], dict(kinds=("del", "touch"), opkeys=range(9, 15)))
    nest = dict(kinds=("del", "touch", "put", "delb", "mkb"))
    if tier == "quick":
        btree = bt.legs(v, "C05", readback=False,
                        mcs=[("inc14o3", 15, bt.seed_inc(14), 3, 1, {}),
                             ("nest14o3", 15, bt.seed_nested(14, (5, 10)), 3, 1, nest)], guards=[f1, f13, f6],
                        gens=[("sparse", 15, bt.seed_sparse(14, [2, 3, 5, 9, 12]), 3, 1, {}),
                              ("dec12", 13, bt.seed_dec(12), 3, 1, {}),
                              # pairs with values of 1.5 pages among the small ones: overflow runs, uneven splits
                              ("big14", 15, bt.seed_inc(14), 3, 1, dict(big=(3, 8, 12), opkeys=range(1, 10)))])
    else:
        btree = bt.legs(v, "C05", readback=False,
                        mcs=[("inc14o4", 15, bt.seed_inc(14), 4, 1, {}), ("e8", 8, [], 3, 3, {}),
                             ("inc9d6", 10, bt.seed_inc(9), 6, 1, dict(kinds=("del",))),
                             ("inc14x2", 15, bt.seed_inc(14), 2, 2, {}),
                             ("nest14o4", 15, bt.seed_nested(14, (1, 5, 10, 14)), 4, 1, dict(kinds=("del", "touch", "delb"))),
                             ("neste7", 7, [], 3, 3, nest)], guards=[f1, f13, f6],
                        gens=[("sparse", 15, bt.seed_sparse(14, [2, 3, 5, 9, 12]), 3, 2, dict(opkeys=range(1, 7))),
                              ("dec12", 13, bt.seed_dec(12), 2, 2, {}),
                              ("inc14d5", 15, bt.seed_inc(14), 5, 1, dict(kinds=("del",))),
                              ("big14", 15, bt.seed_inc(14), 3, 1, dict(big=(3, 8, 12))),
                              ("bigbulk", 15, bt.seed_bulk(14), 3, 1, dict(big=(2, 3, 9, 14))),
                              ("walk", 16, [], 5, 8, dict(simulate="num=3000", workers=1, big=(2, 7, 11, 16)))])
    return finish_l1(v, tier, seed, mc, stats, btree=btree, rule=
                     "every page image the library writes is decoded by the independent parser; TLC (Trace_Page) rebuilds the "
                     "page table and at every header write evaluates the structural predicates (ids, types, counts, strictly "
                     "ascending keys within and across pages, separators bound subtrees, elements inside their run, each page "
                     "reached once) and the accounting (reachable + free-list run + persisted free ids = 2..num_pages-1, "
                     "disjoint; reachable = pages the transaction owns; persisted list = free + pending), cross-checks the "
                     "final file against the rebuilt table, and DB::check() must agree after every commit. Histories: "
                     "TLC-generated nested-bucket deletions at several levels in one transaction (child then ancestor, "
                     "delete+recreate, recreate as other kind) and kv edits on three-level trees, plus seeded random histories.")


C02_RULES = ("header-before-data-sync", "publish-before-header", "commit-ok-before-header-sync", "header-over-the-current-slot", "header-fields",
             "invalid-header-written", "header-not-whole-page", "write-outside-commit", "header-write-outside-commit",
             "live-page-overwritten", "alloc-of-live-page", "allocated-page-not-written", "data-write-after-header",
             "write-beyond-end-of-file", "write-outside-allocation", "unaligned-write", "no-valid-header", "header-choice",
             "stale-header-read")


def c02_scope(sig):
    if sig.get("kind") == "l1":
        return sig["rule"] in C02_RULES
    if sig.get("kind") == "kv":
        return False
    return True


def check_C02(tier, seed):
    import l1, crash
    v = Verdict("C02")
    mc = mc_page(tier, parts=("crash",), sensitive=[("MC_Page_crash_pinned.cfg", "AllImagesRecoverable")])
    stats = dict(images=0, recipes=0, outcomes={})
    if tier == "quick":
        runs = [dict(profile=p, seed=seed * 100 + i, n=3, len=45, nkeys=12, nvals=4,
                     args=["--readback", "0", "--states", "1"] + extra)
                for i, (p, extra) in enumerate([("two", []), ("overflow", ["--presized", "0"]), ("three", []),
                                                ("two", ["--presized", "0"])])]
    else:
        runs = [dict(profile=p, seed=seed * 1000 + i * 10 + j, n=8, len=70, nkeys=nk, nvals=5,
                     args=["--readback", "0", "--states", "1"] + extra)
                for i, (p, extra) in enumerate([("two", []), ("overflow", ["--presized", "0"]), ("three", []),
                                                ("two", ["--presized", "0"]), ("longkey", []), ("hibytes", []),
                                                ("empty", ["--presized", "0"])])
                for j, nk in enumerate([10, 30])]
    samples = []
    for r in runs:
        build_harness()
        tf = os.path.join(scratch(), "C02-%s-%d.ndjson" % (r["profile"], r["seed"]))
        raw = tf + ".raw"
        args = ["trace", "--seed", r["seed"], "--n", r["n"], "--len", r["len"], "--profile", r["profile"],
                "--nkeys", r["nkeys"], "--nvals", r["nvals"], "--out", tf, "--l1", "1", "--raw", raw] + r["args"]
        p = run_jvh(args)
        if p.returncode != 0:
            v.report({"kind": "hang" if p.returncode == 86 else "abort", "rc": p.returncode, "profile": r["profile"]},
                     {"run": r, "stderr": p.stderr[-1500:]})
            continue
        st = l1.page_trace(v, tf, r, scope=c02_scope, sync_rule="1")
        for k in ("events", "states", "writes", "commits"):
            stats[k] = stats.get(k, 0) + st[k]
        rf, nrec, gstates = crash.gen_recipes(tf)
        stats["states"] = stats.get("states", 0) + gstates
        tot = crash.run_recipes(v, tf, raw, rf, r, jobs=8, many=(tier != "quick"))
        stats["images"] += tot["images"]
        stats["recipes"] += tot["recipes"]
        for k, n in tot["outcomes"].items():
            stats["outcomes"][k] = stats["outcomes"].get(k, 0) + n
        stats["traces"] = stats.get("traces", 0) + r["n"]
        if len(samples) < 3:
            samples.append([json.loads(x) for x in read_lines(rf)[:3]])
        for x in (tf, raw, rf):
            os.remove(x)
    cov = dict(states=mc["states"] + stats.get("states", 0), transitions=mc["transitions"] + stats.get("events", 0),
               traces_validated_against_impl=stats.get("traces", 0),
               evaluations=stats["images"], distinct_nontrivial=stats["recipes"],
               rule="MC: PageStore with Kill and PowerLoss (every subset of unsynced writes, any of them torn) -- "
                    "AllImagesRecoverable / AfterCrash / durability hold for the repaired protocol and are violated for the "
                    "pinned one (vacuity guard). Binding: recorded commits of the real code are validated against the protocol "
                    "(Trace_Page) and Gen_Crash enables Kill / PowerLoss at every position of the recorded write sequence; each "
                    "abstract recipe (distinct_nontrivial) is concretised into images (evaluations): 512-byte sector tears of "
                    "data writes, 8-byte word tears of header writes; each image is reopened by the real code and must show "
                    "exactly an allowed committed state, pass DB::check and accept a further commit.",
               samples=samples, model=mc, outcomes=stats["outcomes"],
               recorded=dict((k, stats.get(k)) for k in ("events", "writes", "commits", "traces")), exhaustive=False)
    return v.finish(tier, seed, "model_checking", cov, L1_ASSUME + [
        "power-loss model of the property text: any subset of the writes since the last completed sync, sector / word tears",
        "recorded states (dumps through the public API) are the reference for recovered content; Trace_KV validates them in C01"])


def check_C11(tier, seed):
    import fault
    v = Verdict("C11")
    mc = mc_page(tier, parts=("faults",), sensitive=[("MC_Page_faults_nopub.cfg", "FLConsistent")])
    tot = dict(runs=0, commits=0, outcomes={}, events=0, states=0)
    if tier == "quick":
        srcs = [dict(profile="two", seed=seed * 100 + 1, len=30, nkeys=10, nvals=4, args=["--presized", "1"]),
                dict(profile="overflow", seed=seed * 100 + 2, len=24, nkeys=8, nvals=4, args=["--presized", "0"])]
    else:
        srcs = [dict(profile=p, seed=seed * 1000 + i, len=45, nkeys=12, nvals=4, args=["--presized", ps])
                for i, (p, ps) in enumerate([("two", "1"), ("overflow", "0"), ("three", "1"), ("two", "0"),
                                             ("longkey", "1"), ("hibytes", "0"), ("empty", "1"), ("huge", "0")])]
    samples = []
    # a free list of more than one page that keeps its page count over the faulted commits
    srcs.append(dict(profile="overflow", seed=0, len=0, nkeys=64, nvals=6, args=["--presized", "0"], synthetic="bigfree"))
    for r in srcs:
        steps = fault.history_bigfree(r["nkeys"], r["nvals"]) if r.get("synthetic") else fault.history_from_random(r, "C11")
        np = ["--num-pages", "16384"] if r["args"][-1] == "1" else ["--num-pages", "4"]
        summ, st = fault.fault_runs(v, r, steps, "C11-%s%s" % (r["profile"], r.get("synthetic", "")), extra=np)
        tot["runs"] += summ["runs"]
        tot["commits"] += summ["commits"]
        for k, n in summ["outcomes"].items():
            tot["outcomes"][k] = tot["outcomes"].get(k, 0) + n
        tot["events"] += st["events"]
        tot["states"] += st["states"]
        samples.append(dict(profile=r["profile"], calls_per_commit=summ["calls"], first_steps=steps[:5]))
    cov = dict(states=mc["states"] + tot["states"], transitions=mc["transitions"] + tot["events"],
               traces_validated_against_impl=tot["runs"], evaluations=tot["runs"],
               distinct_nontrivial=tot["runs"] - tot["outcomes"].get("fault-not-reached", 0),
               rule="MC: PageStore with FailDataWrite / FailSyncData / FailMetaWrite (also torn) / FailSyncMeta: FLConsistent, "
                    "Accounting, CacheRecoverable hold for the repaired code and FLConsistent is violated when the shared list "
                    "is not brought in line with a header that became visible (vacuity guard). Binding: for every interposed "
                    "write / fsync of every commit of recorded histories the history is re-run with that call failing (error; "
                    "short write then error) and, when the commit grows the file, with the extension refused (RLIMIT_FSIZE); "
                    "commit must return Io, the handle must show exactly the pre or the post state, DB::check must agree, three "
                    "further transactions must commit and read back, and again after reopen; every run is trace-validated by "
                    "Trace_Page so that a stale shared free list is reported at the failed commit, not when it corrupts data.",
               samples=samples, model=mc, outcomes=tot["outcomes"], exhaustive=False)
    return v.finish(tier, seed, "fault_enumeration", cov, L1_ASSUME + [
        "faults are injected at the libc boundary (write, fsync) and by RLIMIT_FSIZE for fallocate; single faults"])


def check_C12(tier, seed):
    import crash
    v = Verdict("C12")
    mc = mc_page(tier, parts=("damage",))
    stats = dict(images=0, recipes=0, outcomes={}, traces=0, states=0)
    if tier == "quick":
        runs = [dict(profile="two", seed=seed * 100 + 1, n=1, len=40, nkeys=10, nvals=4,
                     args=["--readback", "0", "--states", "1"]),
                dict(profile="overflow", seed=seed * 100 + 2, n=1, len=25, nkeys=8, nvals=4,
                     args=["--readback", "0", "--states", "1", "--presized", "0"])]
        extra = ["--random", 60]
    else:
        runs = [dict(profile=p, seed=seed * 1000 + i, n=2, len=90, nkeys=12, nvals=4,
                     args=["--readback", "0", "--states", "1"] + a)
                for i, (p, a) in enumerate([("two", []), ("overflow", ["--presized", "0"]), ("three", []),
                                            ("flat", ["--pagesize", "4096"]), ("hibytes", [])])]
        extra = ["--random", 2000, "--masks", "1,2,4,8,16,32,64,128,255"]
    samples = []
    for r in runs:
        build_harness()
        tf = os.path.join(scratch(), "C12-%s-%d.ndjson" % (r["profile"], r["seed"]))
        raw = tf + ".raw"
        args = ["trace", "--seed", r["seed"], "--n", r["n"], "--len", r["len"], "--profile", r["profile"],
                "--nkeys", r["nkeys"], "--nvals", r["nvals"], "--out", tf, "--l1", "1", "--raw", raw] + r["args"]
        p = run_jvh(args)
        if p.returncode != 0:
            v.report({"kind": "hang" if p.returncode == 86 else "abort", "rc": p.returncode, "profile": r["profile"]},
                     {"run": r, "stderr": p.stderr[-1500:]})
            continue
        rf, rec, gstates = crash.gen_damage_recipes(tf)
        tot = crash.run_damage(v, tf, raw, rf, r, jobs=8, extra=extra)
        stats["images"] += tot["images"]
        stats["recipes"] += tot["recipes"]
        stats["states"] += gstates
        stats["traces"] += r["n"]
        for k, n in tot["outcomes"].items():
            stats["outcomes"][k] = stats["outcomes"].get(k, 0) + n
        samples.append(rec[:4])
        for x in (tf, raw, rf):
            os.remove(x)
    cov = dict(states=mc["states"] + stats["states"], transitions=mc["transitions"] + stats["images"],
               traces_validated_against_impl=stats["traces"], evaluations=stats["images"],
               distinct_nontrivial=stats["recipes"],
               rule="MC: PageStore with Damage(slot) at quiescent points: FallbackIntact, AfterCrash (the other header's commit "
                    "is recovered in full). Binding: Gen_Damage walks recorded executions and enables Damage for each slot after "
                    "open and after every acknowledged commit (distinct_nontrivial = (commit count, slot) recipes); each is "
                    "concretised as every single-byte change (masks) at every offset of the header page, zeroing, all-ones and "
                    "seeded random multi-byte overwrites (evaluations = images opened by the real code). A change to a hashed "
                    "field, the hash or the page-type byte must yield exactly the other header's commit; a change the pinned "
                    "layout neither hashes nor reads may yield either; DB::check and a follow-up commit must succeed.",
               samples=samples, model=mc, outcomes=stats["outcomes"], exhaustive=False)
    return v.finish(tier, seed, "model_checking", cov, L1_ASSUME + [
        "damage is applied to the file while no process has it open, before any further transaction"])


C03_RULES = ("release-bound", "must-release", "reader-page-released", "release-result", "alloc-of-live-page", "live-page-overwritten",
             "alloc-rule", "double-free", "free-of-page-not-owned", "stale-header-read", "write-outside-allocation")


def c03_scope(sig):
    if sig.get("kind") == "l1":
        return sig["rule"] in C03_RULES
    if sig.get("kind") == "kv":
        return sig.get("what") != "check"
    return True


def gen_readers(name, nkeys, steps, maxr):
    mod, cfg = instantiate("Gen_Readers", name, dict(NKeys=nkeys, NVals=4, MaxSteps=steps, MaxR=maxr, Bucket=0),
                           ["SPECIFICATION GSpec", "CHECK_DEADLOCK FALSE"])
    beh, s, t = tlc_gen(mod, cfg, workers=8)
    if not beh:
        raise ToolError("Gen_Readers produced nothing")
    return beh, s, t


def check_C03(tier, seed):
    import l1
    v = Verdict("C03", out_of_scope=lambda sig: not c03_scope(sig))
    mc = mc_page(tier, parts=("readers",))
    mc["deductive"] = tlaps_proofs("PageRules_Proofs")
    stats = {}
    presz = ["--num-pages", "8192"]   # single thread: the file must not grow while a reader is open
    if tier == "quick":
        plans = [("gr8", 8, 8, 2, ["two", "three"], 60), ("gr8r3", 6, 8, 3, ["two"], 150)]
        runs = [dict(profile=p, seed=seed * 100 + i, n=4, len=70, nkeys=10, nvals=4,
                     args=["--readback", "0", "--presized", "1", "--max-readers", "3", "--reader-churn", str(ch),
                           "--ladder", str(3 if ch else 0)])
                for i, (p, ch) in enumerate([("two", 0), ("overflow", 0), ("two", 30), ("three", 30)])]
    else:
        plans = [("gr9", 10, 9, 2, ["two", "three", "overflow"], 100), ("gr9r3", 6, 9, 3, ["two", "three"], 300)]
        runs = [dict(profile=p, seed=seed * 1000 + i * 10 + j + ch * 3, n=10, len=120, nkeys=nk, nvals=4,
                     args=["--readback", "0", "--presized", "1", "--max-readers", "4", "--reader-churn", str(ch),
                           "--ladder", str(3 + j if ch else 0)])
                for i, p in enumerate(["two", "overflow", "three", "longkey"]) for j, nk in enumerate([10, 24])
                for ch in (0, 30)]
    gs = dict(behaviours=0, replays=0, steps=0, states=0, transitions=0, samples=[], configs=[])
    for name, nk, steps, maxr, profiles, sample_every in plans:
        beh, s, t = gen_readers(name, nk, steps, maxr)
        n, st = kv.replay_behaviours(v, beh, profiles, "C03-" + name, extra_args=presz)
        gs["behaviours"] += len(beh); gs["replays"] += n; gs["steps"] += st; gs["states"] += s; gs["transitions"] += t
        gs["configs"].append(dict(name=name, behaviours=len(beh), max_steps=steps, max_readers=maxr, profiles=profiles))
        if len(gs["samples"]) < 2:
            gs["samples"].append([x for x in beh[len(beh) // 3]["steps"] if x.get("a") != "op"][:12])
        # the same interleavings at the page level: release bounds, allocations, overwrites (sampled)
        sub = beh[::sample_every]
        tf, res, p = l1.record_behaviours(sub, profiles[0], "C03-" + name, extra_args=presz)
        st1 = l1.page_trace(v, tf, {"profile": profiles[0], "gen": name, "nkeys": nk, "nvals": 4}, also_kv=False,
                            scope=c03_scope, sync_rule="1")
        for k in ("events", "states", "writes", "commits"):
            stats[k] = stats.get(k, 0) + st1[k]
        stats["replays"] = stats.get("replays", 0) + len(sub)
        os.remove(tf)
    l1_runs(v, runs, "C03", stats, scope=c03_scope, sync_rule="1")
    cov = dict(states=mc["states"] + gs["states"] + stats.get("states", 0),
               transitions=mc["transitions"] + gs["transitions"] + stats.get("events", 0),
               traces_validated_against_impl=gs["replays"] + stats.get("replays", 0) + stats.get("traces", 0),
               evaluations=gs["steps"] + stats.get("events", 0), distinct_nontrivial=gs["behaviours"],
               rule="TLAPS: what ReleaseBoundOK allows to be released is needed by no reader and not by the writer, and the bound "
                    "the code computes is allowed (PageRules_Proofs.tla, unbounded). "
                    "MC: PageStore readers configuration (ReaderPinned, ReaderIntact over all interleavings of BeginR/EndR with "
                    "writer steps, release bound chosen anywhere in the allowed interval). spec->impl: Gen_Readers enumerates every "
                    "interleaving (distinct_nontrivial) of opening/closing up to k readers with committing / rolling-back writers "
                    "running update+delete chunks; each is replayed single-threaded on a pre-sized file and EVERY open reader is "
                    "re-read in full after EVERY step against the snapshot L0 holds for it. impl->spec: the same interleavings "
                    "(sampled) and random histories with up to 3-4 readers are validated by Trace_Page: release bound within the "
                    "allowed interval w.r.t. the readers that are really open, no allocation or overwrite of a page of a live "
                    "snapshot.",
               samples=gs["samples"], model=mc, generated=gs["configs"],
               recorded=dict((k, stats.get(k)) for k in ("events", "writes", "commits", "traces", "replays")),
               exhaustive=False)
    return v.finish(tier, seed, "model_checking", cov, L1_ASSUME)


C10_RULES = ("alloc-rule", "must-release", "release-bound", "reader-page-released", "release-result", "double-free", "free-of-page-not-owned",
             "pages-in-use-grow-with-bounded-data", "file-grows-with-bounded-data", "persisted-freelist",
             "reachable-vs-owned", "shared-freelist-vs-header", "high-water-mark", "alloc-of-live-page", "header-choice")


def c10_scope(sig):
    if sig.get("kind") == "l1":
        return sig["rule"] in C10_RULES or (sig["rule"] in ("structure", "structure-at-open") and
                                            any(e in ("page-unaccounted", "page-both-live-and-free") for e in sig.get("errs", [])))
    if sig.get("kind") == "kv":
        return False
    return True


def check_C10(tier, seed):
    import l1
    v = Verdict("C10")
    mc = mc_page(tier, parts=("readers", "crash"))
    stats = dict(events=0, states=0, txs=0, runs=0)
    if tier == "quick":
        plans = [("fixed", "two", 32, 80, ["--reopen-every", "17"]),
                 ("varsize", "overflow", 18, 30, ["--reopen-every", "9"]),
                 ("delins", "three", 24, 60, []),
                 ("bucketdel", "overflow", 16, 60, ["--reopen-every", "25"]),
                 ("fixed", "overflow", 24, 60, ["--reader-from", "10", "--reader-to", "25", "--num-pages", "4096"]),
                 ("fixed", "two", 24, 50, ["--reader-plan", "o1@4,o2@6,o3@8,c1@11,c3@12,c2@13,o4@20,o9@20,o5@22,c4@24,c5@25,c9@27",
                                           "--num-pages", "4096"]),
                 ("bucketdel", "overflow", 12, 12, ["--decode", "1"]),
                 # a free list of more than one page (> 124 ids at 1 KiB pages), reloaded at every reopen
                 ("bucketdel", "overflow", 64, 6, ["--decode", "1", "--reopen-every", "1"]),
                 ("varsize", "two", 16, 10, ["--decode", "1"])]
    else:
        plans = [("fixed", "two", 64, 300, ["--reopen-every", "101"]),
                 ("varsize", "overflow", 24, 150, ["--reopen-every", "37"]),
                 ("delins", "three", 40, 300, []),
                 ("bucketdel", "overflow", 20, 500, ["--reopen-every", "125"]),
                 ("bucketdel", "longkey", 16, 250, []),
                 ("fixed", "overflow", 32, 200, ["--reader-from", "30", "--reader-to", "90", "--num-pages", "65536"]),
                 ("varsize", "hibytes", 32, 120, ["--reader-from", "20", "--reader-to", "60", "--num-pages", "65536"]),
                 ("fixed", "two", 32, 200, ["--reader-plan", "o1@4,o2@6,o3@8,c1@11,c3@12,c2@13,o4@50,o9@50,o5@52,o6@54,o7@56,c4@58,c6@60,c9@61,c7@62,c5@63",
                                            "--num-pages", "65536"]),
                 ("bucketdel", "overflow", 16, 60, ["--decode", "1"]),
                 ("varsize", "two", 24, 40, ["--decode", "1"]),
                 ("delins", "three", 30, 40, ["--decode", "1"]),
                 ("bucketdel", "overflow", 64, 20, ["--decode", "1", "--reopen-every", "1"]),
                 ("bucketdel", "overflow", 120, 8, ["--decode", "1", "--reopen-every", "2"])]
    series = []
    for kind, prof, nk, cycles, extra in plans:
        build_harness()
        tf = os.path.join(scratch(), "C10-%s-%s.ndjson" % (kind, prof))
        args = ["workload", "--kind", kind, "--cycles", cycles, "--profile", prof, "--nkeys", nk, "--nvals", 6,
                "--out", tf] + (extra if "--num-pages" in extra else extra + ["--num-pages", "4"])
        p = run_jvh(args, timeout=3000)
        run = dict(kind=kind, profile=prof, nkeys=nk, nvals=6, cycles=cycles, extra=extra)
        if p.returncode != 0:
            v.report({"kind": "hang" if p.returncode == 86 else "abort", "rc": p.returncode, "profile": prof, "workload": kind},
                     {"run": run, "stderr": p.stderr[-1500:]})
        try:
            info = json.loads(p.stdout.strip().splitlines()[-1])
        except Exception:
            info = {}
        if info.get("bad"):
            v.report({"kind": "workload-failed", "workload": kind, "profile": prof}, {"run": run, "info": info})
        st = l1.page_trace(v, tf, run, also_kv=False, scope=c10_scope, sync_rule="1")
        lines = read_lines(tf)
        nps = [json.loads(x)["num_pages"] for x in lines if '"ev":"commit:sized"' in x]
        stats["events"] += st["events"]; stats["states"] += st["states"]; stats["txs"] += info.get("txs", 0); stats["runs"] += 1
        series.append(dict(workload=kind, profile=prof, txs=info.get("txs"), file_bytes=info.get("file_bytes"),
                           high_water_pages_every_10th_commit=nps[::max(1, len(nps) // 12)], extra=extra))
        os.remove(tf)
    # readers that come and go on other threads while writers commit: the registry must not keep an entry of a reader
    # that is gone and every release must let go of what nobody can need (Trace_Threads rules owned by C10)
    import threads
    v.out_of_scope = lambda sig: sig.get("kind") == "threads" and sig.get("owner") != "C10"
    thr = dict(schedules=0, runs=0)
    for (nr, nw, commits, reads, maxpre) in ([(2, 1, 3, 1, 2)] if tier == "quick" else [(2, 1, 4, 1, 3), (2, 2, 2, 1, 2)]):
        beh, s_, t_ = threads.gen_schedules("gt_C10_%d_%d_%d_%d" % (nr, nw, commits, maxpre), list(range(1, nr + 1)),
                                            list(range(11, 11 + nw)), commits, reads, grows=[], maxpre=maxpre,
                                            preempt_at=threads.KEY_POINTS)
        if tier == "quick" and len(beh) > 3000:
            beh = beh[::(len(beh) // 3000) + 1]
        runs, bad, smp = threads.run_schedules(v, "C10", beh, nr, nw, commits, reads, "C10-%d-%d" % (nr, nw),
                                               random=300 if tier == "quick" else 5000, seed=seed, extra=["--grow", 0])
        thr["schedules"] += len(beh); thr["runs"] += runs
        stats["states"] += s_
    cov = dict(states=mc["states"] + stats["states"], transitions=mc["transitions"] + stats["events"],
               traces_validated_against_impl=stats["runs"] + thr["runs"], evaluations=stats["txs"], distinct_nontrivial=stats["runs"],
               threads=thr,
               rule="MC: PageStore readers+crash configurations: Accounting and FLConsistent in every reachable state (also after "
                    "Reopen / Recover: free and pending are reloaded), Release constrained by MustReleaseOK / ReleaseBoundOK, "
                    "allocation extends only when no free run fits. Binding: long cyclic workloads (fixed-size, variable-size, "
                    "delete+reinsert, nested-bucket create+delete; periodic reopen; a reader pinned for a stretch) of the real code; "
                    "every fl:alloc / fl:free / fl:release / publish / header event is validated step by step by Trace_Page "
                    "(evaluations = transactions): extension only without a fitting free run, everything older than every reader "
                    "released, nothing a reader needs released, reloaded list = persisted list; at every cycle marker pages in use "
                    "must not exceed 3x the first cycle + 16 and the high-water mark 4x pages in use + 64 (+ what a pinned reader "
                    "held). Shorter decoded runs give exact per-commit accounting. The measured high-water series is reported.",
               samples=series, model=mc, exhaustive=False)
    return v.finish(tier, seed, "model_checking", cov, L1_ASSUME + [
        "the growth gates are generous multiples (fragmentation of multi-page runs is legitimate); the exact step rules carry the claim"])


L2_ASSUME = [
    "TLC; Threads.tla transcribes Tx::new / commit / resize / drop at the yield hook points (DESIGN.md Appendix D)",
    "schedules are quantified at the instrumented yield points; between two points the code runs atomically w.r.t. the scheduler",
    "std::sync::RwLock is writer-preferring (modelled); observations are made by the harness, not by hooks",
]


def threads_check(prop, tier, seed):
    import threads
    owner_scope = lambda sig: sig.get("owner") not in (None, prop)
    v = Verdict(prop, out_of_scope=owner_scope)
    mc = threads.mc_threads("MC_Threads_fixed.cfg")
    if not mc["ok"]:
        raise ToolError("Threads.tla (registration as repaired) violates %s" % mc["violated"])
    guard = threads.mc_threads("MC_Threads_pinned.cfg")
    if guard["ok"] or "ReaderSafe" not in " ".join(guard["violated"]):
        raise ToolError("vacuity guard: the pinned registration order should violate ReaderSafe")
    live = None
    if prop == "C09":
        live = tlc_mc("MC_Threads", "MC_Threads_live.cfg", timeout=2400, workers=10)
        if not live["ok"]:
            raise ToolError("Threads.tla violates Progress / deadlock freedom: %s" % live["violated"])
    # plan: (readers, writers, commits per writer, reads, max preemptions, grow, preempt only at key points)
    if prop == "C04":
        # page reuse under parked readers: the file is pre-sized (a growing commit would wait for every reader)
        # (2 readers, 4 commits: the younger reader spans a commit while the older one is still open, the older one goes
        # away, one more writer begins -- the release bound then lies strictly inside the pending list)
        plans = [(1, 2, 2, 2, 2, 0, False), (2, 1, 3, 1, 2, 0, False), (2, 1, 4, 1, 3, 0, True)] if tier == "quick" else \
                [(1, 2, 2, 2, 3, 0, False), (2, 2, 2, 2, 2, 0, False), (2, 1, 4, 2, 3, 0, True), (1, 3, 1, 2, 2, 0, False),
                 (2, 1, 3, 1, 2, 1, False)]
        nrandom = 600 if tier == "quick" else 20000
    else:
        plans = [(1, 2, 2, 1, 2, 1, False), (1, 3, 1, 1, 2, 1, False)] if tier == "quick" else \
                [(1, 3, 2, 1, 2, 1, False), (2, 2, 2, 1, 2, 1, False), (2, 3, 1, 1, 2, 0, False), (1, 2, 3, 1, 3, 1, True)]
        nrandom = 600 if tier == "quick" else 20000
    tot = dict(schedules=0, runs=0, states=0, transitions=0, plans=[])
    sample = None
    for (nr, nw, commits, reads, maxpre, grow, keyonly) in plans:
        readers = list(range(1, nr + 1))
        writers = list(range(11, 11 + nw))
        beh, s, t = threads.gen_schedules("gt_%s_%d_%d_%d_%d" % (prop, nr, nw, commits, maxpre), readers, writers, commits, reads,
                                          grows=[1] if grow else [], maxpre=maxpre,
                                          preempt_at=threads.KEY_POINTS if keyonly else ())
        if tier == "quick" and len(beh) > 9000:
            beh = beh[::(len(beh) // 9000) + 1]
        runs, bad, smp = threads.run_schedules(v, prop, beh, nr, nw, commits, reads, "%s-%d-%d" % (prop, nr, nw),
                                               random=nrandom // len(plans), seed=seed, extra=["--grow", grow])
        tot["schedules"] += len(beh); tot["runs"] += runs; tot["states"] += s; tot["transitions"] += t
        tot["plans"].append(dict(readers=nr, writers=nw, commits_per_writer=commits, reads=reads, max_preemptions=maxpre,
                                 first_commit_grows=bool(grow), preempt_only_at_key_points=keyonly,
                                 schedules=len(beh), runs=runs))
        sample = sample or [dict(schedule=beh[len(beh) // 2]["sched"][:14], observed=smp[0] if smp else None)]
    cov = dict(states=mc["states"] + tot["states"] + (live["states"] if live else 0),
               transitions=mc["transitions"] + tot["transitions"] + (live["transitions"] if live else 0),
               traces_validated_against_impl=tot["runs"], evaluations=tot["runs"], distinct_nontrivial=tot["schedules"],
               rule=("MC: Threads.tla, all interleavings (no preemption bound) of 2 readers and 2 writer threads incl. a growing "
                     "commit: ReaderSafe, ReadsStable, Freshness" if prop == "C04" else
                     "MC: Threads.tla: OneWriter, NoLostUpdate, FinalCount, ReaderNotBlockedByWriter, deadlock freedom; Progress "
                     "under weak fairness (no state constraint)") +
                    "; the pinned registration order violates ReaderSafe (vacuity guard). spec->impl: Gen_Threads enumerates every "
                    "schedule with at most k preemptions (distinct_nontrivial); each is forced on real OS threads parked at the "
                    "yield hook points; a thread the model says can proceed but stays blocked for 2 s, an unfinished thread after "
                    "the schedule, overlapping writers, a counter that is not the number of commits, a reader that sees a mix, a "
                    "change or a state older than a commit completed before it began, are violations. Seeded random-priority "
                    "schedules beyond the bound.",
               samples=sample, model=dict(fixed=dict(states=mc["states"], transitions=mc["transitions"]),
                                          pinned_violates="ReaderSafe",
                                          live=dict(states=live["states"]) if live else None),
               plans=tot["plans"], exhaustive=False)
    return v.finish(tier, seed, "model_checking", cov, L2_ASSUME)


def check_C04(tier, seed):
    return threads_check("C04", tier, seed)


def check_C09(tier, seed):
    return threads_check("C09", tier, seed)


C06_RULES = ("write-outside-commit", "header-write-outside-commit", "file-changed-without-a-commit",
             "shared-freelist-vs-header", "alloc-rule", "alloc-of-live-page", "live-page-overwritten", "stale-header-read",
             "free-outside-writer", "alloc-outside-writer", "publish-outside-writer", "double-free", "free-of-page-not-owned",
             "persisted-freelist", "reachable-vs-owned", "header-fields", "high-water-mark")


def c06_scope(sig):
    if sig.get("kind") == "l1":
        return sig["rule"] in C06_RULES
    if sig.get("kind") == "kv":
        return sig.get("what") != "check"
    return True


def check_C06(tier, seed):
    """rollbacks, failing calls, read-only transactions, re-opens leave no trace"""
    v = Verdict("C06")
    mckv = mc_kv(tier)
    mc = mc_page(tier, parts=("readers",))
    stats = {}
    gens = []
    if tier == "quick":
        n, act, fill = spread(2, 2)
        gens.append(("rb2", gen_cfg(n, act, fill, pre=("kv", "bucket", "nest"), ends=("drop", "droprerun", "dropchurn"),
                                    acts=("keep", "put", "del", "delb", "delsubdelb", "mkb"), tails=("none", "delpath")),
                     ["two"]))
        n, act, fill = spread(3, 14)
        gens.append(("rb3f14", gen_cfg(n, act, fill, ends=("drop", "droprerun")), ["three"]))
        runs = [dict(profile=p, seed=seed * 100 + i, n=5, len=70, nkeys=12, nvals=4,
                     args=["--readback", "0", "--hashes", "1", "--p-rollback", "8", "--max-readers", "2",
                           "--presized-pages", "1024", "--ro-mutators", "70"] + extra)
                for i, (p, extra) in enumerate([("two", []), ("overflow", ["--presized", "0"]), ("three", [])])]
    else:
        n, act, fill = spread(4, 2)
        gens.append(("rb4", gen_cfg(n, act, fill, pre=("kv", "bucket", "nest"), ends=("drop", "droprerun", "dropchurn"),
                                    acts=("keep", "put", "del", "delb", "delsubdelb", "mkb"), tails=("none", "delpath")),
                     ["two", "overflow"]))
        n, act, fill = spread(5, 16)
        gens.append(("rb5f16", gen_cfg(n, act, fill, ends=("drop", "droprerun")), ["three", "longkey"]))
        runs = [dict(profile=p, seed=seed * 1000 + i * 10 + j, n=10, len=110, nkeys=nk, nvals=4,
                     args=["--readback", "0", "--hashes", "1", "--p-rollback", "8", "--max-readers", "3",
                           "--presized-pages", "2048", "--ro-mutators", "70"] + extra)
                for i, (p, extra) in enumerate([("two", []), ("overflow", ["--presized", "0"]), ("three", []),
                                                ("hibytes", []), ("empty", ["--presized", "0"])])
                for j, nk in enumerate([10, 30])]
    l1_gens(v, gens, "C06", stats, scope=c06_scope, sync_rule="1")
    l1_runs(v, runs, "C06", stats, scope=c06_scope, sync_rule="1")
    # "a call that returns an error changes nothing" for commit itself: a commit refused by the strict-mode check
    # (provoked by damage in a bucket the transaction never reads) must leave headers and content as they were
    out = os.path.join(scratch(), "strict-probe.json")
    p = run_jvh(["strict-probe", "--out", out, "--rounds", 6 if tier == "quick" else 40])
    if p.returncode != 0:
        v.report({"kind": "hang" if p.returncode == 86 else "abort", "rc": p.returncode, "at": "strict-probe"},
                 {"stderr": p.stderr[-1200:], "how": "jvh strict-probe"})
        probe = dict(tried=0, refused_commits=0)
    else:
        probe = json.load(open(out))
        for pr in probe.pop("problems"):
            v.report({"kind": "strict-probe", "what": pr["what"]}, {"problem": pr, "how": "jvh strict-probe --out <file>"})
    stats["strict_probe"] = probe
    mc2 = dict(states=mc["states"] + mckv["states"], transitions=mc["transitions"] + mckv["transitions"],
               configs=mc["configs"] + [dict(cfg="MC_KV", states=mckv["states"])])
    return finish_l1(v, tier, seed, mc2, stats,
                     "MC: KVStore (OnlyCommitChanges, SnapshotStable: an error result or Drop leaves `committed`; mutators through a "
                     "read-only transaction yield ReadOnlyTx) and PageStore (no action writes outside a commit; Rollback changes "
                     "nothing shared). Binding: TLC-generated transactions (bucket deletions at several levels, deletes on "
                     "three-level trees) that are ABANDONED, then re-run in a new transaction and committed; random histories with "
                     "frequent rollbacks, failing calls, mutators on read-only transactions, commits on read-only transactions, "
                     "re-opens. Trace_KV validates every result; Trace_Page requires: no write / header write outside a commit, file "
                     "hash and length unchanged around every rollback, read-only transaction, failed call and re-open, shared free "
                     "list unchanged by a rollback, and the transactions after a rollback allocate exactly as the free list without "
                     "it allows. Probe: a strict-mode commit refused by the library's own check (damage in an unrelated bucket) "
                     "leaves both headers and the visible content unchanged, on the same handle and after reopening.")


def pairwise(params):
    """greedy pairwise covering array over dict name -> list of values"""
    import itertools
    names = list(params)
    need = set()
    for a, b in itertools.combinations(names, 2):
        for x in params[a]:
            for y in params[b]:
                need.add((a, x, b, y))
    rows = []
    allrows = [dict(zip(names, vals)) for vals in itertools.product(*[params[n] for n in names])]
    while need:
        best, gain = None, -1
        for r in allrows:
            g = sum(1 for (a, x, b, y) in need if r[a] == x and r[b] == y)
            if g > gain:
                best, gain = r, g
        rows.append(best)
        need = {(a, x, b, y) for (a, x, b, y) in need if not (best[a] == x and best[b] == y)}
    return rows


C16_RULES = ("write-beyond-end-of-file", "write-outside-allocation", "alloc-rule", "high-water-mark", "header-fields",
             "allocated-page-not-written", "live-page-overwritten", "alloc-of-live-page", "structure", "structure-at-open",
             "persisted-freelist", "reachable-vs-owned", "header-choice", "no-valid-header", "unaligned-write")


def c16_scope(sig):
    if sig.get("kind") == "l1":
        return sig["rule"] in C16_RULES
    return True


def check_C16(tier, seed):
    import l1
    v = Verdict("C16", out_of_scope=lambda sig: not c16_scope(sig))
    mc = mc_kv(tier)
    sizes = [1024, 1032, 2048, 3000, 4096, 5000, 16384, 65536, 1048576]
    params = dict(pagesize=sizes, num_pages=[4, 32, 1000], strict=[0, 1], populate=[0, 1])
    import itertools
    rows = pairwise(params) if tier == "quick" else \
        [dict(zip(params, vals)) for vals in itertools.product(*[params[n] for n in params])]
    # histories: one small exhaustive family + one with nested buckets; L0 has no option variable, so the
    # results TLC computed are the same for every configuration
    n, act, fill = spread(3, 3)
    beh1, s1, t1 = kv.gen_behaviours("o3", gen_cfg(n, act, fill, ends=("commit", "reopen")), workers=6)
    n, act, fill = spread(2, 2)
    beh2, s2, t2 = kv.gen_behaviours("o2m", gen_cfg(n, act, fill, pre=("absent", "kv", "nest"), ends=("reopen",),
                                                    acts=("keep", "put", "delb", "delsubdelb", "mkb")), workers=6)
    behs = beh1 + beh2
    if tier == "quick":
        behs = behs[::7]
    for b in behs:
        b["steps"] = [x for x in b["steps"] if x.get("a") != "check"]
    tot = dict(replays=0, steps=0, configs=[])
    # a bucket of 8 keys: with 300-byte keys (profile three) and 1 KiB pages its root is a branch of four entries that
    # does not fit one page (an overflow run below a branch page)
    n, act, fill = spread(2, 6)
    beh3, s3, t3 = kv.gen_behaviours("o2f6", gen_cfg(n, act, fill, pre=("kv",), ends=("commit", "reopen")), workers=6)
    for b in beh3:
        b["steps"] = [x for x in b["steps"] if x.get("a") != "check"]
    s1 += s3
    t1 += t3
    # every other configuration with the profile that has the empty key, the empty bucket name and the empty value,
    # every third one with 300-byte keys; the combinations (smallest page sizes, strict) x (empty, three) explicitly
    rows = [dict(r, profile=("overflow", "empty", "three")[ri % 3]) for ri, r in enumerate(rows)]
    rows += [dict(pagesize=ps, num_pages=4, strict=1, populate=0, profile=pf) for ps in (1024, 1032) for pf in ("empty", "three")]
    for ri, r in enumerate(rows):
        big = r["pagesize"] >= 65536
        sub = behs[::6] if big else behs
        if r["pagesize"] * r["num_pages"] > 300 * 1024 * 1024:
            sub = sub[:20]
        prof = r["profile"] if r["pagesize"] <= 4096 else "flat"
        if prof == "three":
            sub = beh3[::2] + sub[::2]
        args = ["--pagesize", r["pagesize"], "--num-pages", r["num_pages"], "--strict", r["strict"], "--populate", r["populate"]]
        nrep, nst = kv.replay_behaviours(v, sub, [prof], "C16-%d-%d-%d" % (r["pagesize"], r["num_pages"], ri), extra_args=args, jobs=8)
        tot["replays"] += nrep
        tot["steps"] += nst
        tot["configs"].append(dict(r, histories=len(sub)))
    # page sizes that are not a multiple of the word size: work, or be refused cleanly (never abort)
    odd = [1028, 1100, 3001, 4100] if tier == "quick" else [1025, 1026, 1028, 1030, 1100, 2050, 3001, 4097, 4100, 5001, 9999]
    odd_out = {}
    for ps in odd:
        one = [dict(behs[0], steps=behs[0]["steps"])] + behs[1:12]
        before = len(v.violations)
        d = scratch()
        fn = os.path.join(d, "odd-%d.ndjson" % ps)
        with open(fn, "w") as f:
            for i, b in enumerate(one):
                f.write(json.dumps(dict(b, id=i)) + "\n")
        p = run_jvh(["replay", "--in", fn, "--profile", "two", "--out", fn + ".out", "--pagesize", ps, "--num-pages", 32])
        res = read_lines(fn + ".out") if os.path.exists(fn + ".out") else []
        devs = [json.loads(x) for x in res if '"dev"' in x]
        refused = [x for x in devs if x["dev"].get("what") == "open" and x["dev"]["got"] in (["panic"], ["err", "InvalidDB"])]
        if p.returncode != 0:
            odd_out[ps] = "process died (rc %d)" % p.returncode
            v.report({"kind": "abort", "rc": p.returncode, "pagesize_mod8": ps % 8, "at": "odd-pagesize"},
                     {"pagesize": ps, "stderr": p.stderr[-800:], "how": "jvh replay --pagesize %d" % ps})
        elif devs and len(refused) == len(devs) == len(one):
            odd_out[ps] = "refused cleanly"
        elif devs:
            odd_out[ps] = "deviations"
            for x in devs[:3]:
                v.report({"kind": "kv", "what": "odd-pagesize", "pagesize_mod8": ps % 8},
                         {"pagesize": ps, "dev": x["dev"], "history": one[x["line"]]["steps"][:x["dev"]["step"] + 1]})
        else:
            odd_out[ps] = "works"
        for x in (fn, fn + ".out"):
            if os.path.exists(x):
                os.remove(x)
    # growth through several extension steps, the high-water mark creeping over every file end
    growth = []
    gstats = dict(events=0, states=0)
    for ps, strict in ([(3000, 0), (4096, 1), (5000, 0)] if tier == "quick" else
                       [(3000, 0), (3000, 1), (4096, 0), (4096, 1), (5000, 0), (1032, 1), (16384, 0), (1024, 0)]):
        build_harness()
        tf = os.path.join(scratch(), "C16-creep-%d.ndjson" % ps)
        p = run_jvh(["workload", "--kind", "creep", "--pagesize", ps, "--crossings", 3 if tier == "quick" else 5,
                     "--strict", strict, "--out", tf], timeout=1800)
        run = dict(kind="creep", pagesize=ps, strict=strict, profile="raw")
        info = {}
        try:
            info = json.loads(p.stdout.strip().splitlines()[-1])
        except Exception:
            pass
        if p.returncode != 0:
            v.report({"kind": "hang" if p.returncode == 86 else "abort", "rc": p.returncode, "at": "growth", "pagesize": ps},
                     {"run": run, "stderr": p.stderr[-1200:], "how": "jvh workload --kind creep --pagesize %d" % ps})
        for pr in info.get("problems", []):
            v.report({"kind": "growth", "class": "panic" if "panicked" in pr else "check" if "DB::check" in pr else "readback",
                      "pagesize_divides_8MiB": (8 * 1024 * 1024) % ps == 0},
                     {"run": run, "problem": pr, "how": "jvh workload --kind creep --pagesize %d --strict %d" % (ps, strict)})
        if os.path.exists(tf) and os.path.getsize(tf) > 0:
            lines = read_lines(tf)
            try:
                json.loads(lines[-1])
            except Exception:
                open(tf, "w").write("\n".join(lines[:-1]) + "\n")
            st = l1.page_trace(v, tf, run, also_kv=False, scope=c16_scope, sync_rule="1")
            gstats["events"] += st["events"]
            gstats["states"] += st["states"]
            os.remove(tf)
        growth.append(dict(pagesize=ps, strict=strict, commits=info.get("txs"), extensions=info.get("crossed"),
                           file_bytes=info.get("file_bytes")))
    cov = dict(states=mc["states"] + s1 + s2 + gstats["states"], transitions=mc["transitions"] + t1 + t2 + gstats["events"],
               traces_validated_against_impl=tot["replays"] + len(growth), evaluations=tot["steps"] + gstats["events"],
               distinct_nontrivial=len(rows),
               rule="L0 has no option variable: one behaviour per history. The same TLC-generated histories (with the results TLC "
                    "computed) are replayed under " + ("a pairwise covering array" if tier == "quick" else "the full product") +
                    " of page size x initial pages x strict mode x map-populate (distinct_nontrivial = configurations); every "
                    "result must equal the specification's, strict mode must never reject a commit. Page sizes that are not a "
                    "multiple of 8 must work or be refused at open without killing the process. Growth: files created with 4 pages "
                    "are driven across several 8 MiB extensions with transactions sized so that the high-water mark creeps over "
                    "each file end (also exactly one page beyond); Trace_Page requires every write to lie inside the file as it was "
                    "before the write; values are read back through the same handle.",
               samples=[tot["configs"][:3], growth], odd_pagesizes=odd_out, growth=growth, configs=tot["configs"], model=dict(MC_KV=mc["states"]),
               exhaustive=(tier != "quick"))
    return v.finish(tier, seed, "model_checking", cov, KV_ASSUME + L1_ASSUME[3:])


def check_C15(tier, seed):
    """files of the pinned release (and their legacy-header variants) stay readable"""
    import l1
    v = Verdict("C15")
    mc = mc_kv("quick")
    build_harness()
    gold = os.path.join(VERIF, "golden")
    files = []
    for ps in (1024, 4096, 5000, 16384):
        files.append((os.path.join(gold, "golden-%d.db" % ps), os.path.join(gold, "golden-%d.json" % ps), False))
        files.append((os.path.join(gold, "golden-%d-legacy.db" % ps), os.path.join(gold, "golden-%d.json" % ps), True))
        # the same transactions on a file the pinned release created with 4 pages and therefore extended by its 8 MiB
        # step: untruncated, the length is not a multiple of a page size that does not divide 8 MiB (stored gzipped)
        import gzip, shutil
        grown = os.path.join(scratch(), "golden-%d-grown.db" % ps)
        with gzip.open(os.path.join(gold, "golden-%d-grown.db.gz" % ps), "rb") as fi, open(grown, "wb") as fo:
            shutil.copyfileobj(fi, fo)
        files.append((grown, os.path.join(gold, "golden-%d.json" % ps), False))
        # ... and one whose committed free list spans several pages (a large bucket created and deleted again)
        if ps in (1024, 4096):
            bigfree = os.path.join(scratch(), "golden-%d-bigfree.db" % ps)
            with gzip.open(os.path.join(gold, "golden-%d-bigfree.db.gz" % ps), "rb") as fi, open(bigfree, "wb") as fo:
                shutil.copyfileobj(fi, fo)
            files.append((bigfree, os.path.join(gold, "golden-%d.json" % ps), False))
    stats = dict(events=0, states=0, files=0)
    samples = []
    rounds = 1 if tier == "quick" else 6
    for fdb, fjs, legacy in files:
        for rnd in range(rounds):
            out = os.path.join(scratch(), "golden.out")
            tf = os.path.join(scratch(), "golden.trace")
            p = run_jvh(["golden", "--file", fdb, "--expect", fjs, "--out", out, "--trace-out", tf,
                         "--len", 35 if tier == "quick" else 80, "--seed", seed * 10 + rnd, "--strict", rnd % 2])
            name = os.path.basename(fdb)
            if p.returncode != 0:
                v.report({"kind": "hang" if p.returncode == 86 else "abort", "rc": p.returncode, "file": name},
                         {"file": fdb, "stderr": p.stderr[-1200:], "how": "jvh golden --file %s --expect %s" % (fdb, fjs)})
            res = json.load(open(out)) if os.path.exists(out) else {"problems": [], "mismatch": []}
            for pr in res["problems"]:
                cls = ("open" if pr.startswith("open:") else "content" if "content differs" in pr else
                       "check" if "DB::check" in pr else "wrong-pagesize-accepted" if "succeeded on a file" in pr else
                       "file-modified" if "modified the file" in pr else "other")
                v.report({"kind": "golden", "class": cls, "legacy": legacy, "file": name},
                         {"file": fdb, "problem": pr, "how": "jvh golden --file %s --expect %s --seed %d" % (fdb, fjs, seed * 10 + rnd)})
            if os.path.exists(tf) and os.path.getsize(tf) > 0:
                lines = read_lines(tf)
                try:
                    json.loads(lines[-1])
                except Exception:
                    open(tf, "w").write("\n".join(lines[:-1]) + "\n")
                st = l1.page_trace(v, tf, {"profile": "overflow", "file": name, "seed": seed * 10 + rnd}, also_kv=True,
                                   sync_rule="1")
                stats["events"] += st["events"]
                stats["states"] += st["states"]
            stats["files"] += 1
            if len(samples) < 3:
                samples.append(dict(file=name, legacy=legacy, mismatching_page_sizes=res.get("mismatch")))
            for x in (out, tf):
                if os.path.exists(x):
                    os.remove(x)
    cov = dict(programs=len(files), disagreements_checked=stats["files"], samples=samples,
               states=mc["states"] + stats["states"], transitions=mc["transitions"] + stats["events"],
               traces_validated_against_impl=stats["files"], evaluations=stats["events"], distinct_nontrivial=len(files),
               rule="14 golden files (4 page sizes x {current header, legacy header, created small and grown by the 8 MiB step: "
                    "untruncated length} + 2 with a committed free list of several pages) written by the pinned release are recorded "
                    "behaviours the current code must accept and extend: Trace_KV starts from the recorded logical content "
                    "(load), Trace_Page from the independent parse of the file (seed: structure, accounting, header choice at "
                    "open), then a seeded random history is committed on top, validated step by step incl. every page image "
                    "written, and the final file is parsed again. Every mismatching page size must be refused with the file's "
                    "bytes and length unchanged. The byte layout itself is encoded by harness/src/parse.rs (trusted).",
               exhaustive=False)
    return v.finish(tier, seed, "translation_validation", cov, L1_ASSUME + [
        "golden files were generated once from commit f5c2214 (see golden/README.md); parse.rs encodes the pinned layout incl. "
        "the legacy (SHA3-256) header"])


def tlaps_proofs(module):
    """the theorems of spec/<module>.tla checked by the TLA+ proof system (no bounds)"""
    d = os.path.join(scratch(), "tlaps")
    os.makedirs(d, exist_ok=True)
    shutil.copy(os.path.join(SPEC, module + ".tla"), d)
    t0 = time.time()
    try:
        p = subprocess.run(["tlapm", "--threads", "4", module + ".tla"], cwd=d, stdout=subprocess.PIPE, stderr=subprocess.STDOUT,
                           text=True, timeout=1800)
    except subprocess.TimeoutExpired:
        raise ToolError("tlapm timeout on %s" % module)
    m = re.search(r"All (\d+) obligations? proved", p.stdout)
    if not m:
        log(p.stdout[-3000:])
        raise ToolError("tlapm: %s has unproved obligations" % module)
    shutil.rmtree(d, ignore_errors=True)
    return dict(tool="tlapm 1.6", module=module, obligations_proved=int(m.group(1)), seconds=round(time.time() - t0, 1))


def apalache_inductive(module, indinv, goal):
    """Init => IndInv, IndInv /\\ Next => IndInv', IndInv => goal, discharged by Apalache (symbolic, no depth bound)"""
    out_dir = os.path.join(scratch(), "apalache")
    base = ["apalache-mc", "check", "--out-dir=" + out_dir, "--cinit=ConstInit"]
    steps = [("Init => %s" % indinv, ["--inv=" + indinv, "--length=0"]),
             ("%s /\\ Next => %s'" % (indinv, indinv), ["--init=IndInit", "--inv=" + indinv, "--length=1"]),
             ("%s => %s" % (indinv, goal), ["--init=IndInit", "--inv=" + goal, "--length=0"])]
    res = []
    for what, args in steps:
        t0 = time.time()
        try:
            p = subprocess.run(base + args + [os.path.join(SPEC, module + ".tla")], cwd=scratch(), stdout=subprocess.PIPE,
                               stderr=subprocess.STDOUT, text=True, timeout=1800)
        except subprocess.TimeoutExpired:
            raise ToolError("Apalache timeout on %s (%s)" % (module, what))
        if "EXITCODE: OK" not in p.stdout:
            log(p.stdout[-3000:])
            raise ToolError("Apalache: %s does not hold for %s" % (what, module))
        res.append(dict(obligation=what, seconds=round(time.time() - t0, 1)))
    shutil.rmtree(out_dir, ignore_errors=True)
    return dict(tool="apalache-mc 0.58", module=module, obligations=res)


def check_C13(tier, seed):
    """one process at a time: TLC-generated orderings forced on real processes"""
    v = Verdict("C13")
    mcs = []
    for cfg in ("MC_OpenLock_absent_lockfirst.cfg", "MC_OpenLock_exists_lockfirst.cfg"):
        r = tlc_mc("OpenLock", cfg, timeout=600, workers=6)
        if not r["ok"]:
            raise ToolError("OpenLock (lock first) violates %s" % r["violated"])
        mcs.append(dict(cfg=cfg, states=r["states"], transitions=r["transitions"]))
    g = tlc_mc("OpenLock", "MC_OpenLock_absent_pinned.cfg", timeout=600, workers=6)
    if g["ok"] or "NoFailure" not in " ".join(g["violated"]):
        raise ToolError("vacuity guard: the pinned open order on a missing file should violate NoFailure")
    live = tlc_mc("OpenLock", "MC_OpenLock_live.cfg", timeout=600, workers=6)
    if not live["ok"]:
        raise ToolError("OpenLock violates Waits: %s" % live["violated"])
    ind = apalache_inductive("OpenLock_Ind", "IndInv", "Exclusive")
    build_harness()
    plans = [({1, 2}, False, 3), ({1, 2}, True, 3), ({1, 2, 3}, False, 2 if tier == "quick" else 3),
             ({1, 2, 3}, True, 2 if tier == "quick" else 3)]
    tot = dict(orderings=0, runs=0, states=0, transitions=0, plans=[])
    samples = []
    for procs, exists, pre in plans:
        mod, cfg = instantiate("Gen_OpenLock", "gol%d%d" % (len(procs), int(exists)),
                               dict(Procs=procs, FileExists=exists, LockFirst=True, MaxPre=pre),
                               ["SPECIFICATION GSpec", "CHECK_DEADLOCK FALSE"])
        beh, s, t = tlc_gen(mod, cfg, workers=4)
        if tier == "quick" and len(beh) > 900:
            beh = beh[::max(1, len(beh) // 900)]
        fn = os.path.join(scratch(), "ol.json")
        json.dump(beh, open(fn, "w"))
        out = fn + ".out"
        tf = fn + ".trace"
        p = run_jvh(["procs-run", "--orderings", fn, "--procs", len(procs), "--exists", int(exists), "--out", out,
                     "--ungated", 40 if tier == "quick" else 600, "--seed", seed, "--trace-out", tf], timeout=3000)
        # impl -> spec: the recorded order of hook points against the lock discipline
        if os.path.exists(tf) and os.path.getsize(tf) > 0:
            import l1
            reps, stuck, st = l1.vlib_raw_tag("Trace_OpenLock", "Trace_OpenLock.cfg", tf, {}, "L3")
            if stuck is not None:
                raise ToolError("CONFORMANCE: Trace_OpenLock cannot match line %d" % stuck)
            tl = read_lines(tf)
            for r in reps:
                start = r["line"]
                while start > 1 and '"ev":"reset"' not in tl[start - 1]:
                    start -= 1
                v.report({"kind": "procs-trace", "rule": r["rule"], "procs": len(procs), "file_exists": exists},
                         {"rule": r["rule"], "detail": r["detail"], "events": [json.loads(x) for x in tl[start - 1:r["line"]]]})
            tot["states"] += st
            os.remove(tf)
        lines = read_lines(out) if os.path.exists(out) else []
        for ln in lines:
            o = json.loads(ln)
            if o.get("summary"):
                tot["runs"] += o["runs"]
                if len(samples) < 2 and o.get("sample"):
                    samples.append(dict(procs=len(procs), file_exists=exists, observed=o["sample"][0]))
                continue
            for pr in o["problems"]:
                cls = ("overlap" if "at the same time" in pr else "unseen-commit" if "does not see" in pr else
                       "open-failed" if "failed" in pr or "died" in pr else "blocked" if "did not arrive" in pr or "never finished" in pr
                       else "other")
                v.report({"kind": "procs", "class": cls, "procs": len(procs), "file_exists": exists},
                         {"problem": pr, "ordering": o.get("sched"), "ungated": o.get("ungated"), "results": o.get("results"),
                          "how": "jvh procs-run --orderings <[{sched: ordering}]> --procs N --exists 0|1"})
        if p.returncode != 0:
            v.report({"kind": "hang" if p.returncode == 86 else "abort", "rc": p.returncode, "at": "procs-run"},
                     {"stderr": p.stderr[-800:]})
        tot["orderings"] += len(beh); tot["states"] += s; tot["transitions"] += t
        tot["plans"].append(dict(procs=len(procs), file_exists=exists, max_preemptions=pre, orderings=len(beh)))
        for x in (fn, out):
            if os.path.exists(x):
                os.remove(x)
    cov = dict(states=sum(m["states"] for m in mcs) + tot["states"] + live["states"],
               transitions=sum(m["transitions"] for m in mcs) + tot["transitions"],
               traces_validated_against_impl=tot["runs"], evaluations=tot["runs"], distinct_nontrivial=tot["orderings"],
               rule="MC: OpenLock.tla (open-or-create, lock, initialise if empty, map, commit a marker, close) for 3 processes, file "
                    "present or absent: Exclusive, SeesAll, NoFailure, NothingLost, and Waits under weak fairness; the pinned order "
                    "(create and initialise before locking) violates NoFailure (vacuity guard). Exclusive additionally without a "
                    "depth bound: Apalache discharges Init => IndInv, IndInv /\\ Next => IndInv', IndInv => Exclusive "
                    "(OpenLock_Ind.tla: a process is between lock_exclusive() and close exactly if it is the lock holder). spec->impl: every ordering with at "
                    "most k preemptions (distinct_nontrivial) is forced on real processes gated at the open / init / lock hook "
                    "points; overlap is observed by effect: monotonic-clock intervals [open returned, about to close] must be "
                    "disjoint, a process must find the markers of every process that closed before it got in, nobody may fail or "
                    "hang; plus ungated runs with random start offsets and hold times.",
               samples=samples, model=dict(safety=mcs, pinned_violates="NoFailure", live=live["states"], inductive=ind),
               plans=tot["plans"],
               exhaustive=False)
    return v.finish(tier, seed, "model_checking", cov, [
        "TLC; OpenLock.tla transcribes OpenOptions::open / init_file / DBInner::open at the hook points",
        "orderings are forced at hook points only; flock is observed by its effect (it is a raw syscall)",
        "CLOCK_MONOTONIC is comparable across processes on this host"])


def replay(prop, path):
    """Re-executes the history stored in a replay file and prints what the last step yields."""
    r = json.load(open(path))
    build_harness()
    if r.get("behaviour") is not None:
        # a BTree.tla history: jvh btree-run on the one behaviour
        d = scratch()
        fn = os.path.join(d, "replay-bt.ndjson")
        with open(fn, "w") as f:
            f.write(json.dumps(r["behaviour"]) + "\n")
        p = run_jvh(["btree-run", "--in", fn, "--out", fn + ".out", "--nkeys", str(r.get("nkeys", 16))])
        out = read_lines(fn + ".out") if os.path.exists(fn + ".out") else []
        for ln in out:
            print(ln[:2000])
        lines = [json.loads(x) for x in out]
        bad = [o for o in lines if not o.get("summary") and o.get("problems")]
        if r.get("structure") is not None:
            import bt
            v2 = Verdict(prop)
            diff = [(r["behaviour"], o.get("got_shape")) for o in lines if not o.get("summary") and not o.get("shape_equal", True)]
            if diff:
                bt.shape_judgement(v2, diff, r.get("nkeys", 16), "replay")
            bad = bad or v2.violations
        if p.returncode != 0 or bad:
            print("VIOLATION property=%s replay=%s" % (prop, path))
            return 1
        print("replay: the recorded deviation does not occur on this tree")
        return 0
    hist = r.get("history")
    if hist is None:
        print("replay file has no history")
        return 2
    prof = r.get("profile") or r.get("run", {}).get("profile", "two")
    nk = r.get("nk") or r.get("run", {}).get("nkeys", 16)
    nv = r.get("nv") or r.get("run", {}).get("nvals", 4)
    if r.get("allowed") is not None and hist:
        hist = [dict(s) for s in hist]
        hist[-1]["exp"] = r["allowed"]
        for s in hist[:-1]:
            s.pop("exp", None)
            s["exp_any"] = True
    d = scratch()
    fn = os.path.join(d, "replay.ndjson")
    with open(fn, "w") as f:
        f.write(json.dumps({"id": 0, "nk": nk, "nv": nv, "steps": hist, "lenient": True}) + "\n")
    extra = r.get("args") or r.get("run", {}).get("args", [])
    extra = [x for x in extra if x not in ("--readback", "0", "1")] if "--readback" in extra else extra
    p = run_jvh(["replay", "--in", fn, "--profile", prof, "--out", fn + ".out", "--lenient", "1"] + list(extra))
    out = read_lines(fn + ".out") if os.path.exists(fn + ".out") else []
    for ln in out:
        print(ln)
    if p.returncode != 0:
        print("VIOLATION property=%s replay=%s" % (prop, path))
        return 1
    devs = [json.loads(x) for x in out if '"dev"' in x]
    if devs:
        print("VIOLATION property=%s replay=%s" % (prop, path))
        return 1
    print("replay: the recorded deviation does not occur on this tree")
    return 0
