"""L0 bindings: trace validation of random histories (impl -> spec) and replay of
TLC-generated behaviours (spec -> impl)."""
import json, os, subprocess, time
from vlib import *


def classify_list(got, exp):
    """Shape of a listing deviation (used in signatures of findings)."""
    if got == exp:
        return "equal"
    if len(got) < len(exp) and exp[:len(got)] == got:
        return "truncated"
    if len(got) > len(exp) and got[:len(exp)] == exp:
        return "extra-at-end"
    ge = [tuple(x) if isinstance(x, list) else x for x in got]
    ee = [tuple(x) if isinstance(x, list) else x for x in exp]
    if set(map(str, ee)) < set(map(str, ge)):
        return "superset"
    if set(map(str, ge)) < set(map(str, ee)):
        return "subset"
    return "different"


def kv_signature(ev, exp, history):
    """A normalised description of a deviating observation."""
    sig = {"kind": "kv", "what": ev.get("ev"), "call": ev.get("c", ev.get("ev")),
           "got": ev["res"][0] if isinstance(ev.get("res"), list) and ev["res"] else str(ev.get("res"))}
    if isinstance(ev.get("res"), list) and len(ev["res"]) > 1 and ev["res"][0] == "err":
        sig["got"] = "err:" + str(ev["res"][1])
    exps = [e[0] if e[0] != "err" else "err:" + e[1] for e in exp] if exp else []
    sig["exp"] = sorted(set(exps))
    if ev.get("c") in ("range", "rangeb", "rangekv"):
        sig["lk"] = ev.get("lk")
        sig["hk"] = ev.get("hk")
    if ev.get("res") and ev["res"][0] == "list" and exp and exp[0][0] == "list":
        sig["shape"] = classify_list(ev["res"][1], exp[0][1])
        sig["exp_empty"] = len(exp[0][1]) == 0
    # context: inside a write transaction that has already mutated something?
    t = ev.get("t")
    writable = False
    dirty = False
    deleted = False
    for h in history:
        if h.get("ev") == "begin" and h.get("t") == t:
            writable = bool(h.get("w"))
        if h.get("ev") == "op" and h.get("t") == t and h.get("c") in ("put", "del", "mkb", "gocb", "delb") \
                and h.get("res") and h["res"][0] in ("ok", "none", "kv"):
            dirty = True
            if h.get("c") in ("del", "delb"):
                deleted = True
    sig["intx"] = writable and dirty
    sig["after_delete"] = deleted
    return sig


def history_of(lines, lineno):
    """Events of the history containing 1-based line `lineno`, up to and including it."""
    start = lineno
    while start > 1 and '"ev":"reset"' not in lines[start - 1]:
        start -= 1
    return [json.loads(x) for x in lines[start - 1:lineno]]


def to_steps(hist):
    steps = []
    for e in hist:
        ev = e.get("ev")
        if ev == "op":
            s = {k: e[k] for k in ("t", "c", "p", "k", "v", "lk", "lo", "hk", "hi") if k in e}
            s["a"] = "op"
            steps.append(s)
        elif ev in ("begin", "commit", "drop", "reopen", "check"):
            s = {"a": ev}
            for k in ("t", "w"):
                if k in e:
                    s[k] = e[k]
            steps.append(s)
    return steps


def kv_trace_runs(verdict, runs, tag):
    """runs: list of dict(profile, seed, n, len, nkeys, nvals, args).  Each is driven on the
    real code, recorded, and validated by TLC against Trace_KV.  Returns coverage numbers."""
    build_harness()
    total_events = 0
    total_hist = 0
    total_states = 0
    samples = []
    nontrivial = set()
    for r in runs:
        tf = os.path.join(scratch(), "%s-%s-%d.ndjson" % (tag, r["profile"], r["seed"]))
        args = ["trace", "--seed", r["seed"], "--n", r["n"], "--len", r["len"], "--profile", r["profile"],
                "--nkeys", r["nkeys"], "--nvals", r["nvals"], "--out", tf] + list(r.get("args", []))
        p = run_jvh(args)
        lines = read_lines(tf) if os.path.exists(tf) else []
        if p.returncode != 0:
            # the code under test took the process down: an observation, not a tool failure
            hist = history_of(lines, len(lines)) if lines else []
            verdict.report({"kind": "hang" if p.returncode == 86 else "abort", "rc": p.returncode, "profile": r["profile"]},
                           {"run": r, "history": to_steps(hist), "stderr": p.stderr[-2000:]})
            if not lines:
                continue
            # drop a possibly half-written last line
            try:
                json.loads(lines[-1])
            except Exception:
                lines = lines[:-1]
                with open(tf, "w") as f:
                    f.write("\n".join(lines) + "\n")
        mism, stuck, states = tlc_trace("Trace_KV", "Trace_KV.cfg", tf)
        total_states += states
        total_events += len(lines)
        total_hist += r["n"]
        for ln in lines:
            if '"ev":"op"' in ln:
                e = json.loads(ln)
                nontrivial.add((e["c"], json.dumps(e["res"])[:80], r["profile"]))
        if stuck is not None:
            raise ToolError("CONFORMANCE: Trace_KV cannot match line %d of %s: %s" %
                            (stuck, tf, lines[stuck - 1][:300]))
        for m in mism:
            ev = json.loads(lines[m["line"] - 1])
            hist = history_of(lines, m["line"])
            sig = kv_signature(ev, m.get("exp"), hist)
            sig["profile"] = r["profile"]
            verdict.report(sig, {"run": r, "event": ev, "allowed": m.get("exp"),
                                 "history": to_steps(hist),
                                 "how": "jvh replay of 'history' under 'run.profile'; the last step must yield one of 'allowed'"})
        if len(samples) < 3 and len(lines) > 12:
            samples.append([json.loads(x) for x in lines[2:10]])
        os.remove(tf)
    return dict(events=total_events, histories=total_hist, states=total_states,
                distinct=len(nontrivial), samples=samples)


# ------------------------------------------------------------------------------------------
# spec -> impl: TLC-generated behaviours replayed on the real code
# ------------------------------------------------------------------------------------------

def gen_behaviours(name, constants, workers=4, base="Gen_KV"):
    mod, cfg = instantiate(base, name, constants, ["SPECIFICATION GSpec", "CHECK_DEADLOCK FALSE"])
    beh, states, trans = tlc_gen(mod, cfg, workers=workers)
    if not beh:
        raise ToolError("generator %s produced no behaviour" % name)
    return beh, states, trans


def replay_sig(dev, hist):
    st = dev.get("what") if isinstance(dev.get("what"), dict) else {}
    ev = dict(st)
    ev["ev"] = st.get("a", "open")
    ev["res"] = dev.get("got")
    events = []
    # reconstruct the events that preceded (results are the expected ones, they matched)
    for s in hist["steps"][:max(dev.get("step", 0), 0)]:
        e = dict(s)
        e["ev"] = s.get("a")
        e["res"] = (s.get("exp") or [["ok"]])[0]
        events.append(e)
    sig = kv_signature(ev, dev.get("exp"), events)
    return sig


def replay_behaviours(verdict, beh, profiles, tag, jobs=None, extra_args=()):
    """Steps every behaviour through the real code under every profile.  Returns
    (replays run, steps run)."""
    build_harness()
    jobs = jobs or min(NCPU, 12)
    d = scratch()
    n = len(beh)
    chunk = max(1, (n + jobs - 1) // jobs)
    files = []
    for j in range(0, n, chunk):
        fn = os.path.join(d, "%s-in-%d.ndjson" % (tag, j))
        with open(fn, "w") as f:
            for i, b in enumerate(beh[j:j + chunk]):
                b = dict(b)
                b["id"] = j + i
                f.write(json.dumps(b) + "\n")
        files.append((fn, j))
    total = 0
    steps = 0
    for prof in profiles:
        pending = [(fn, base, 0) for fn, base in files]
        while pending:
            procs = []
            for fn, base, skip in pending:
                out = fn + "." + prof + ".out"
                cmd = [JVH, "replay", "--in", fn, "--profile", prof, "--out", out, "--skip", str(skip)] \
                    + [str(a) for a in extra_args]
                procs.append((subprocess.Popen(cmd, stdout=subprocess.DEVNULL, stderr=subprocess.PIPE, text=True),
                              fn, base, skip, out))
            pending = []
            for p, fn, base, skip, out in procs:
                _, err = p.communicate()
                lines = read_lines(out) if os.path.exists(out) else []
                summary = None
                for ln in lines:
                    try:
                        o = json.loads(ln)
                    except Exception:
                        continue
                    if o.get("summary"):
                        summary = o
                        continue
                    hist = beh[base + o["line"]]
                    sig = replay_sig(o["dev"], hist)
                    sig["profile"] = prof
                    verdict.report(sig, {"profile": prof, "args": list(extra_args), "history": hist["steps"][:o["dev"]["step"] + 1],
                                         "nk": hist.get("nk"), "nv": hist.get("nv"),
                                         "got": o["dev"]["got"], "allowed": o["dev"]["exp"], "panic": o["dev"].get("panic"),
                                         "how": "jvh replay --profile <profile>: the last step must yield one of 'allowed'"})
                if summary:
                    total += summary["histories"]
                    steps += summary["steps"]
                if p.returncode != 0:
                    # the process died inside the code under test: attribute it and go on
                    try:
                        idx = int(open(out + ".progress").read().strip())
                    except Exception:
                        raise ToolError("jvh replay died without progress information: %s" % err[-500:])
                    hist = beh[base + idx]
                    verdict.report({"kind": "hang" if p.returncode == 86 else "abort", "rc": p.returncode, "profile": prof,
                                    "msg": (err or "").strip().splitlines()[-1:]},
                                   {"profile": prof, "history": hist["steps"], "nk": hist.get("nk"),
                                    "nv": hist.get("nv"), "stderr": (err or "")[-1500:]})
                    total += idx - skip + 1
                    if idx + 1 < len(read_lines(fn)):
                        pending.append((fn, base, idx + 1))
                for x in (out, out + ".progress"):
                    if os.path.exists(x):
                        os.remove(x)
    for fn, _ in files:
        os.remove(fn)
    return total, steps
