"""BTree.tla legs: exhaustive model checking of the transcribed rebalance / spill (MC_BTree),
vacuity guards (the pinned code's variants must violate), and the replay of every generated
history into the real code (jvh btree-run) with the reference map as oracle and the page
structure computed by the model as conformance evidence."""
import json
import os
import subprocess

import vlib
from vlib import (JVH, NCPU, SPEC, ToolError, build_harness, instantiate, log, read_lines, scratch, tlc_gen, tlc_mc)

# the `bt` profile of the harness: 179-byte keys, 16-byte values (= a nested bucket's entry), 1 KiB pages
SIZES = dict(PageSize=1024, LeafElem=32 + 179 + 16, BranchElem=24 + 179, BigElem=32 + 179 + 1500)


def seed_inc(n):
    return [[("put", i)] for i in range(1, n + 1)]


def seed_dec(n):
    return [[("put", i)] for i in range(n, 0, -1)]


def seed_bulk(n):
    return [[("put", i) for i in range(1, n + 1)]]


def seed_nested(n, buckets):
    """keys 1..n one per transaction, those in `buckets` as nested buckets"""
    return [[("mkb" if i in buckets else "put", i)] for i in range(1, n + 1)]


def seed_sparse(n, drop):
    return seed_inc(n) + [[("del", k) for k in drop]]


def _consts(nkeys, seed, max_ops, max_tx, emit, kinds=("put", "del"), opkeys=None, pinned=(), big=()):
    c = dict(SIZES)
    c["BigKeys"] = set(big)
    c.update(NKeys=nkeys, Seed=[[list(op) for op in tx] for tx in seed], MaxOps=max_ops, MaxTx=max_tx, Emit=emit,
             Kinds=set(kinds), OpKeys=set(opkeys if opkeys is not None else range(1, nkeys + 1)), Pinned=set(pinned))
    return c


INVS = "NoPanic CommitOK ReadYourWrites ScanYourWrites NodesSorted"


SEEK_INVS = INVS + " SeekYourWrites"
RANGE_INVS = SEEK_INVS + " RangeYourWrites"


def mc(name, nkeys, seed, max_ops, max_tx, workers=None, timeout=14400, invs=None, **kw):
    """exhaustive check of the model itself; returns dict(states, transitions, ok, violated)"""
    mod, cfg = instantiate("MC_BTree", "MCBT_" + name, _consts(nkeys, seed, max_ops, max_tx, False, **kw),
                           ["SPECIFICATION Spec", "VIEW View", "INVARIANTS " + (invs or INVS), "CHECK_DEADLOCK FALSE"])
    # no -coverage: with the deeply recursive operators of BTree.tla it costs > 100x
    r = tlc_mc(mod, cfg, workers=workers or min(NCPU, 8), timeout=timeout, coverage=False)
    r["name"] = name
    return r


def guard(name, nkeys, seed, max_ops, pinned, **kw):
    """the pinned code's variant of the model must violate an invariant (vacuity guard)"""
    r = mc("guard_" + name, nkeys, seed, max_ops, 1, pinned=pinned, **kw)
    if r["ok"]:
        raise ToolError("vacuity guard %s: the pinned variant %s of BTree.tla violates nothing" % (name, pinned))
    return dict(name=name, pinned=list(pinned), violated=r["violated"], states=r["states"])


def gen(name, nkeys, seed, max_ops, max_tx, workers=4, simulate=None, timeout=14400, **kw):
    mod, cfg = instantiate("MC_BTree", "GENBT_" + name, _consts(nkeys, seed, max_ops, max_tx, True, **kw),
                           ["SPECIFICATION Spec", "CHECK_DEADLOCK FALSE"] + ([] if simulate else ["VIEW View"]))
    beh, s, t = tlc_gen(mod, cfg, workers=workers, simulate=simulate, timeout=timeout)
    return beh, s, t


def shape_judgement(verdict, differing, nkeys, tag, limit=400):
    """page structures that differ from the model's are judged by Trace_Shape (C05's predicates)"""
    seen = {}
    for b, sh in differing:
        seen.setdefault(json.dumps(sh, sort_keys=True), (b, sh))
    items = list(seen.values())[:limit]
    fn = os.path.join(scratch(), "%s-shapes.ndjson" % tag)
    with open(fn, "w") as f:
        for i, (b, sh) in enumerate(items):
            f.write(json.dumps({"i": i, "shape": sh, "list": b["list"]}) + "\n")
    out = vlib._tlc(os.path.join(SPEC, "Trace_Shape.tla"), os.path.join(SPEC, "Trace_Shape.cfg"), 1,
                    extra_env={"SHAPES": fn}, timeout=1200)
    if "Error:" in out or "Model checking completed" not in out:
        log(out[-3000:])
        raise ToolError("Trace_Shape failed")
    for r in vlib.parse_printed_json(out):
        b, sh = items[r["i"]]
        verdict.report(dict(kind="bt-shape", why=r["why"], seed=tag),
                       {"how": "jvh btree-run --nkeys %d (profile bt): the bucket's page structure in the file" % nkeys,
                        "nkeys": nkeys, "history": b["hist"], "behaviour": b, "structure": sh, "why": r["why"]})
    return len(items)


def replay(verdict, beh, nkeys, tag, readback=True, jobs=None, judge_shapes=True, big=()):
    """Runs every behaviour in the real code.  Reports property-level problems to the verdict;
    returns stats incl. how many page structures equal the model's."""
    build_harness()
    jobs = jobs or min(NCPU, 8)
    d = scratch()
    # group by seed so that each worker builds a seed tree once
    beh = sorted(beh, key=lambda b: json.dumps(b["seed"]))
    n = len(beh)
    chunk = max(1, (n + jobs - 1) // jobs)
    procs = []
    for j in range(0, n, chunk):
        fn = os.path.join(d, "%s-bt-%d.ndjson" % (tag, j))
        with open(fn, "w") as f:
            for b in beh[j:j + chunk]:
                f.write(json.dumps(b) + "\n")
        cmd = [JVH, "btree-run", "--in", fn, "--out", fn + ".out", "--nkeys", str(nkeys),
               "--readback", "1" if readback else "0", "--scratch-tag", "%s-%d" % (tag, j),
               "--big", ",".join(str(k) for k in sorted(big))]
        procs.append((subprocess.Popen(cmd, stdout=subprocess.DEVNULL, stderr=subprocess.PIPE, text=True), fn, j))
    st = dict(replays=0, with_problems=0, shape_equal=0, shape_differs=0, model_predicted_failures=0,
              model_failures_confirmed=0, shapes_judged=0)
    differing = []          # (behaviour, structure found in the file)
    for p, fn, base in procs:
        _, err = p.communicate()
        if p.returncode != 0:
            raise ToolError("jvh btree-run failed (%d): %s" % (p.returncode, err[-800:]))
        summary = None
        for ln in read_lines(fn + ".out"):
            o = json.loads(ln)
            if o.get("summary"):
                summary = o
                continue
            b = beh[base + o["i"]]
            predicted = b.get("bad", "")
            if o["problems"]:
                pr = o["problems"][0]
                import re as _re
                sig = dict(kind="bt-replay", what=pr.get("kind"), at=_re.sub(r"\d+", "N", pr.get("at") or ""),
                           detail=_re.sub(r"\d+", "N", str(pr.get("what") or "")), seed=tag)
                verdict.report(sig, {"how": "jvh btree-run --nkeys %d (profile bt)" % nkeys, "nkeys": nkeys,
                                     "history": b["hist"], "behaviour": b, "problems": o["problems"][:5],
                                     "model_predicted": predicted})
                if predicted:
                    st["model_failures_confirmed"] += 1
            elif not o.get("shape_equal", True) and not predicted:
                differing.append((b, o.get("got_shape")))
            if not o["problems"] and predicted:
                # the model says this history fails and the code handles it: the model no longer describes the code
                raise ToolError("BTree.tla predicts '%s' for %s but the real code handles it: model drift"
                                % (predicted, json.dumps(b["hist"])))
        if not summary:
            raise ToolError("jvh btree-run: no summary in %s" % fn)
        st["replays"] += summary["behaviours"]
        st["with_problems"] += summary["with_problems"]
        st["shape_differs"] += summary["shape_differs"]
    if differing and judge_shapes:
        st["shapes_judged"] = shape_judgement(verdict, differing, nkeys, tag)
    st["model_predicted_failures"] = sum(1 for b in beh if b.get("bad"))
    st["shape_equal"] = st["replays"] - st["with_problems"] - st["shape_differs"]
    if st["shape_differs"]:
        log("   note: %d of %d page structures differ from BTree.tla's (conformance drift, not a property)"
            % (st["shape_differs"], st["replays"]))
    return st


def legs(verdict, tag, mcs=(), guards=(), gens=(), readback=True):
    """mcs: (name, nkeys, seed, ops, txs, kw); guards: (name, nkeys, seed, ops, pinned, kw);
    gens: (name, nkeys, seed, ops, txs, kw)  -> evidence dict"""
    ev = dict(module="BTree / MC_BTree", model=[], guards=[], replay=[], states=0, transitions=0, replays=0)
    for name, nkeys, seed, ops, txs, kw in mcs:
        r = mc(name, nkeys, seed, ops, txs, **kw)
        if not r["ok"]:
            # the transcription of the CURRENT code violates an invariant: a predicted defect.  The
            # counterexample is not trusted on its own: generation + replay below decides on the real code.
            log(r["out"][-3000:])
            raise ToolError("MC_BTree %s: the transcription of the current code violates %s; replay the "
                            "counterexample with jvh btree-run to confirm it on the real code" % (name, r["violated"]))
        ev["model"].append(dict(name=name, nkeys=nkeys, seed_txs=len(seed), max_ops=ops, max_tx=txs,
                                states=r["states"], transitions=r["transitions"], ok=r["ok"], violated=r["violated"]))
        ev["states"] += r["states"]
        ev["transitions"] += r["transitions"]
    for name, nkeys, seed, ops, pinned, kw in guards:
        ev["guards"].append(guard(name, nkeys, seed, ops, pinned, **kw))
    for name, nkeys, seed, ops, txs, kw in gens:
        kw = dict(kw)
        sim = kw.pop("simulate", None)
        beh, s, t = gen(name, nkeys, seed, ops, txs, simulate=sim, **kw)
        st = replay(verdict, beh, nkeys, tag + "-" + name, readback=readback, big=kw.get("big", ()))
        st.update(name=name, nkeys=nkeys, seed_txs=len(seed), max_ops=ops, max_tx=txs, behaviours=len(beh))
        ev["replay"].append(st)
        ev["states"] += s
        ev["transitions"] += t
        ev["replays"] += st["replays"]
    return ev
