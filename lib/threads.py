"""L2 bindings (C04, C09): TLC-generated schedules forced on real threads (jvh sched-run)."""
import json, os, subprocess
from vlib import *
import vlib


def mc_threads(cfg, timeout=1500):
    return tlc_mc("MC_Threads", cfg, timeout=timeout, workers=10)


KEY_POINTS = {"tx:locked", "tx:meta_read", "tx:reg_done", "h:read", "h:tx_done", "commit:spilled", "commit:data_written",
              "commit:meta_written", "resize:allocated", "in:M.write"}


def gen_schedules(name, readers, writers, commits, reads, grows, maxpre, atomic=True, maxpage=9, preempt_at=()):
    d = os.path.join(scratch(), "inst")
    os.makedirs(d, exist_ok=True)
    mod = os.path.join(d, name + ".tla")
    cfg = os.path.join(d, name + ".cfg")
    with open(mod, "w") as f:
        f.write("---- MODULE %s ----\nEXTENDS Gen_Threads\nc_Commits == [t \\in Writers |-> %d]\n====\n" % (name, commits))
    with open(cfg, "w") as f:
        f.write("SPECIFICATION GSpec\nCHECK_DEADLOCK FALSE\nCONSTANTS\n  Readers = %s\n  Writers = %s\n  Commits <- c_Commits\n"
                "  Reads = %d\n  Grows = %s\n  RegisterAtomically = %s\n  MaxPage = %d\n  MaxPre = %d\n  PreemptAt = %s\n" %
                (tla_value(set(readers)), tla_value(set(writers)), reads, tla_value(set(grows)),
                 "TRUE" if atomic else "FALSE", maxpage, maxpre, tla_value(set(preempt_at))))
    beh, s, t = tlc_gen(mod, cfg, workers=8)
    if not beh:
        raise ToolError("Gen_Threads produced no schedule")
    return beh, s, t


def classify(problem):
    p = problem
    if p.startswith("deadlock"):
        return "deadlock", "C09"
    if "blocked although" in p:
        return "blocked-although-enabled", "C09"
    if "two write transactions" in p:
        return "writers-overlap", "C09"
    if "lost update" in p or "final state" in p:
        return "lost-update", "C09"
    if "reader" in p and "panicked" in p:
        return "reader-panic", "C04"
    if "saw its snapshot change" in p:
        return "snapshot-changed", "C04"
    if "no single committed state" in p:
        return "mixed-state", "C04"
    if "had completed before it began" in p:
        return "stale-snapshot", "C04"
    if "writer" in p and ("panicked" in p or "writer saw" in p):
        return "writer-failed", "C09"
    if "DB::check" in p:
        return "check-failed", "C09"
    return "other", "C09"


def run_schedules(verdict, prop, beh, nreaders, nwriters, commits, reads, tag, random=0, seed=1, jobs=8, extra=()):
    """Forces every schedule on real threads.  Returns (runs, bad, sample)."""
    build_harness()
    d = scratch()
    n = len(beh)
    chunk = max(1, (n + jobs - 1) // jobs) if n else 1
    parts = []
    for j in range(0, max(n, 1), chunk):
        fn = os.path.join(d, "%s-sch-%d.json" % (tag, j))
        with open(fn, "w") as f:
            json.dump(beh[j:j + chunk], f)
        parts.append((fn, j, 0))
    runs = 0
    bad = 0
    sample = None
    trace_states = [0]
    pending = parts
    first = True
    restarts = {}
    while pending:
        procs = []
        for i, (fn, base, skip) in enumerate(pending):
            out = fn + ".out"
            cmd = [JVH, "sched-run", "--readers", str(nreaders), "--writers", str(nwriters), "--commits", str(commits),
                   "--reads", str(reads), "--out", out, "--skip", str(skip),
                   "--trace-out", out + ".trace"] + [str(x) for x in extra]
            if n:
                cmd += ["--schedules", fn]
            if random and first:
                cmd += ["--random", str(max(1, random // len(pending))), "--seed", str(seed * 100 + i)]
            procs.append((subprocess.Popen(cmd, stdout=subprocess.DEVNULL, stderr=subprocess.PIPE, text=True), fn, base, skip, out))
        first = False
        pending = []
        for p, fn, base, skip, out in procs:
            _, err = p.communicate()
            lines = read_lines(out) if os.path.exists(out) else []
            got_summary = False
            for ln in lines:
                try:
                    o = json.loads(ln)
                except Exception:
                    continue
                if o.get("summary"):
                    got_summary = True
                    runs += o["runs"]
                    bad += o["bad"]
                    sample = sample or o.get("sample")
                    continue
                for pr in o["problems"]:
                    cls, owner = classify(pr)
                    sig = {"kind": "threads", "class": cls, "owner": owner, "readers": nreaders, "writers": nwriters}
                    verdict.report(sig, {"problem": pr, "all_problems": o["problems"], "schedule": o.get("sched"),
                                         "random_seed": o.get("random"), "log": o.get("log"),
                                         "threads": dict(readers=nreaders, writers=nwriters, commits=commits, reads=reads),
                                         "how": "jvh sched-run --schedules <[{sched: schedule}]> --readers R --writers W --commits C --reads N --num-pages 4"})
            if p.returncode not in (0,):
                # rc 3: a deadlocked run (reported above) took the process down; anything else: died
                try:
                    idx = int(open(out + ".progress").read().strip())
                except Exception:
                    idx = None
                if p.returncode != 3:
                    verdict.report({"kind": "threads", "class": "hang" if p.returncode == 86 else "abort", "owner": "C09",
                                    "rc": p.returncode},
                                   {"schedule": beh[base + idx]["sched"] if idx is not None and idx < 1000000 and base + idx < n else None,
                                    "stderr": (err or "")[-800:]})
                # (a change that deadlocks everything would otherwise cost 10 s + a restart per schedule:
                # after a few restarts of a part the verdict has its examples)
                restarts[fn] = restarts.get(fn, 0) + 1
                if idx is not None and idx < 1000000 and n and idx + 1 < len(json.load(open(fn))) and restarts[fn] <= 4:
                    pending.append((fn, base, idx + 1))
                if not got_summary:
                    runs += 1
            # impl -> spec: the recorded hook order of all runs of this process against the L2 rules
            tf = out + ".trace"
            if os.path.exists(tf) and os.path.getsize(tf) > 0:
                import l1
                tl = read_lines(tf)
                try:
                    json.loads(tl[-1])
                except Exception:
                    tl = tl[:-1]
                    open(tf, "w").write("\n".join(tl) + "\n")
                reps, stuck, st = l1.vlib_raw_tag("Trace_Threads", "Trace_Threads.cfg", tf, {}, "L2")
                if stuck is not None:
                    raise ToolError("CONFORMANCE: Trace_Threads cannot match line %d" % stuck)
                for r in reps:
                    start = r["line"]
                    while start > 1 and '"ev":"reset"' not in tl[start - 1]:
                        start -= 1
                    owner = "C04" if r["rule"] in ("release-bound", "reader-page-released", "reader-snapshot-older-than-a-completed-commit",
                                                   "deregistered-unknown-reader", "deregistered-by-a-thread-without-registration") \
                        else "C10" if r["rule"] in ("must-release", "reader-gone-but-still-registered") else "C09"
                    verdict.report({"kind": "threads", "class": "trace:" + r["rule"], "owner": owner,
                                    "readers": nreaders, "writers": nwriters},
                                   {"rule": r["rule"], "detail": r["detail"],
                                    "events": [json.loads(x) for x in tl[start - 1:r["line"]]][-60:]})
                trace_states[0] += st
            for x in (out, out + ".progress", out + ".trace"):
                if os.path.exists(x):
                    os.remove(x)
    for fn, _, _ in parts:
        if os.path.exists(fn):
            os.remove(fn)
    return runs, bad, sample
