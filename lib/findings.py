"""Matchers for /verif/known_findings.json.  A finding is identified by the specific class of
failing input (its 'matcher' and parameters); any other violation of the same property is
still reported.  Entries with status "fixed" suppress nothing."""


def matches(finding, sig):
    m = finding.get("matcher", {})
    for k, v in m.items():
        if k.endswith("_in"):
            if sig.get(k[:-3]) not in v:
                return False
        elif sig.get(k) != v:
            return False
    return bool(m)
