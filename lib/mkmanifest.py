#!/usr/bin/env python3
"""Writes MANIFEST.json from the table below (kept in one place so that it stays valid)."""
import json, os
V = os.path.dirname(os.path.dirname(os.path.abspath(__file__)))

L1NOTE = "Trusted: TLC; the in-binary libc interposer; parse.rs (decodes the pinned layout, judges nothing); the placement of the add-only hook points; bounded model constants (see evidence)."
CLAIMED = {
 "C01": dict(cat="model_checking", ref="DESIGN.md 6 (C01), 3.1, 4.4",
   text="L0 reference semantics (KVOps/KVStore.tla) model-checked by TLC; TLC-enumerated behaviours (every function Active -> initial kind x action x ending, over tree-shape profiles incl. dirty nested buckets below merging interior nodes and multi-extension growth) replayed on the real code with every result compared, and seeded random histories of the real code trace-validated by TLC against the same specification. BTree.tla leg (DESIGN.md 12.5): the rebalance / spill / cursor code transcribed operator by operator and model-checked (MC_BTree) over every short history on seed trees of up to three levels; every generated history is replayed into the real code against the reference map and the page structure found in the file is compared with the model's.",
   note="Trusted: TLC, harness projection (exec.rs), the correspondence Do <-> public API; bounded key universes (<= 48 keys per bucket, depth <= 3).",
   tech="TLA+ L0 spec + TLC; spec->impl behaviour replay and impl->spec trace validation; transcribed B+tree model (BTree.tla) with exact structure conformance"),
 "C02": dict(cat="model_checking", ref="DESIGN.md 6 (C02), 3.2, 4.6",
   text="PageStore.tla (commit protocol, cache vs disk, Kill, PowerLoss over every subset of unsynced writes with tears) model-checked: AllImagesRecoverable / AfterCrash / durability hold for the protocol as repaired and fail for the pinned order (vacuity guard). Recorded commits of the real code are validated against the protocol (Trace_Page) and Gen_Crash enables Kill/PowerLoss at every position of the recorded write sequence; every abstract recipe is concretised (sector and word tears) and reopened by the real code: exactly pre or post, DB::check ok, further commit works.",
   note=L1NOTE + " Power-loss model as in the property text.", tech="TLA+ L1 spec + TLC; trace validation of the commit protocol; TLC-generated crash recipes replayed as file images"),
 "C03": dict(cat="model_checking", ref="DESIGN.md 6 (C03)",
   text="PageStore readers configuration model-checked (ReaderPinned, ReaderIntact); Gen_Readers enumerates every single-threaded interleaving of opening/closing up to k readers with committing / rolling-back writers, replayed on the real code with every open reader re-read in full after every step; release bounds / allocations / overwrites of the same runs and of random multi-reader histories validated by Trace_Page against the readers that are really open. Hooks around Freelist::release list the pending entries before and after: an entry newer than the oldest snapshot in use must not disappear. The release rule itself is proved without bounds with TLAPS (PageRules_Proofs.tla).",
   note=L1NOTE, tech="TLA+ L0+L1 specs + TLC; exhaustive interleaving replay; trace validation; TLAPS proofs of the release rule"),
 "C04": dict(cat="model_checking", ref="DESIGN.md 6 (C04), 3.3, 4.5",
   text="Threads.tla (Tx::new / commit / resize / drop split at the yield hook points, five locks, release and allocation rules) model-checked without preemption bound: ReaderSafe, ReadsStable, Freshness; the pinned registration order violates ReaderSafe (vacuity guard). Gen_Threads enumerates all schedules with <= k preemptions of 1-2 readers against chains of page-reusing commits; each is forced on real threads parked at the hook points and the harness checks what every reader saw; seeded random schedules beyond the bound. Trace_Threads keeps the threads that hold a registration as ground truth for the registry (only the registering thread may deregister; release() is judged against it).",
   note="Trusted: TLC; transcription of the code into Threads.tla; schedules quantified at yield points only; harness-side observations.", tech="TLA+ L2 spec + TLC; TLC-generated schedules forced on real threads"),
 "C09": dict(cat="model_checking", ref="DESIGN.md 6 (C09), 3.3, 4.5",
   text="Threads.tla model-checked: OneWriter, NoLostUpdate, FinalCount, ReaderNotBlockedByWriter, deadlock freedom, and Progress under weak fairness. Bounded-preemption schedules of 2-3 read-modify-write writer threads with readers (incl. a commit that grows the file) are forced on real threads: overlap flag, final counter, every thread finishes, a thread the model says can proceed must not stay blocked; seeded random schedules beyond the bound.",
   note="Trusted: as C04; std RwLock modelled as writer-preferring; deadlock = a thread not finished 10 s after the schedule / blocked 2 s although enabled.", tech="TLA+ L2 spec + TLC (safety + liveness); TLC-generated schedules forced on real threads"),
 "C05": dict(cat="model_checking", ref="DESIGN.md 6 (C05), 4.3",
   text="Every page image the library writes is decoded by an independent parser and TLC (Trace_Page) evaluates the structural and accounting predicates at every header write, cross-checks the final file, and DB::check() must agree; histories are TLC-generated (nested bucket deletions at several levels in one transaction, merges/splits on three-level trees) and random. BTree.tla leg (DESIGN.md 12.5): the rebalance / spill / cursor code transcribed operator by operator and model-checked (MC_BTree) over every short history on seed trees of up to three levels; every generated history is replayed into the real code against the reference map and the page structure found in the file is compared with the model's.",
   note=L1NOTE, tech="TLA+ predicates over decoded pages evaluated by TLC on recorded executions; transcribed B+tree model (BTree.tla) with exact structure conformance"),
 "C06": dict(cat="model_checking", ref="DESIGN.md 6 (C06)",
   text="KVStore (OnlyCommitChanges: an error result or Drop leaves the committed state; mutators on read-only transactions yield ReadOnlyTx) and PageStore (no write outside a commit; Rollback changes nothing shared) model-checked. TLC-generated transactions (bucket deletions at several levels, deletes on three-level trees) are abandoned, re-run and committed; random histories with frequent rollbacks, failing calls, read-only mutators and re-opens with other options are validated by Trace_KV and Trace_Page: no write or header write outside a commit, file hash and length unchanged around every rollback / read-only transaction / failed call / re-open, shared free list untouched, later allocations exactly as without the abandoned transaction. Probe: a strict-mode commit refused by the library's own check (damage in an unrelated bucket) must leave both headers and the visible content unchanged.",
   note=L1NOTE, tech="TLA+ L0+L1 specs + TLC; trace validation incl. file hashes"),
 "C07": dict(cat="model_checking", ref="DESIGN.md 6 (C07)",
   text="L0 transaction view: the full read API (get, scan, seek, re-seek, ranges, buckets, kv_pairs, counter, after-the-end probe) is issued after every single operation of a write transaction, in TLC-generated behaviours over tree-shape profiles and in random traces, and compared with KVOps!Do on the transaction's own view. BTree.tla leg (DESIGN.md 12.5): the rebalance / spill / cursor code transcribed operator by operator and model-checked (MC_BTree) over every short history on seed trees of up to three levels; every generated history is replayed into the real code against the reference map and the page structure found in the file is compared with the model's.",
   note="Trusted: TLC, exec.rs projection.", tech="TLA+ L0 spec + TLC; behaviour replay with read-back after every op; trace validation; transcribed B+tree model (BTree.tla) with exact structure conformance"),
 "C08": dict(cat="model_checking", ref="DESIGN.md 6 (C08)",
   text="Cursor sub-machine of L0 (SeekResults allows either neighbour for an absent key; ranges for all bound kinds; filters; next() after exhaustion) model-checked (SeekSound, AllSorted) and bound by TLC-generated exhaustive query sets: every seek / re-seek key and every pair of bounds over the universe on empty, single-leaf, two- and three-level buckets, committed and mid-transaction. BTree.tla leg (DESIGN.md 12.5): the rebalance / spill / cursor code transcribed operator by operator and model-checked (MC_BTree) over every short history on seed trees of up to three levels; every generated history is replayed into the real code against the reference map and the page structure found in the file is compared with the model's.",
   note="Trusted: TLC, exec.rs projection.", tech="TLA+ L0 spec + TLC; exhaustive query generation replayed on the real code; transcribed B+tree model (BTree.tla) with exact structure conformance"),
 "C10": dict(cat="model_checking", ref="DESIGN.md 6 (C10)",
   text="PageStore readers+crash configurations model-checked (Accounting, FLConsistent incl. Reopen/Recover; Release constrained by MustReleaseOK/ReleaseBoundOK; extension only without a fitting free run). Long cyclic workloads of the real code are validated step by step by Trace_Page (alloc / free / release / publish / header events) with growth gates at cycle markers; shorter decoded runs give exact per-commit accounting. A thread-schedule leg reports the Trace_Threads rules that belong to this property (every release lets go of what nobody can need; a reader that is gone is not left registered); workloads with free lists of several pages and a reopen per cycle.",
   note=L1NOTE + " Growth gates are generous multiples; the exact step rules carry the claim.", tech="TLA+ L1 rules checked by TLC on long recorded runs"),
 "C11": dict(cat="fault_enumeration", ref="DESIGN.md 6 (C11)",
   text="PageStore with FailIO actions model-checked (FLConsistent, Accounting, CacheRecoverable; the variant that does not re-publish violates FLConsistent: vacuity guard). For every interposed write/fsync of every commit of recorded histories, the history is re-run with that call failing (error; short write then error; extension refused by RLIMIT_FSIZE): commit must return Io, the handle shows exactly pre or post, DB::check ok, further transactions commit, again after reopen; all runs trace-validated by Trace_Page. The enumeration also runs over a synthetic history whose free list spans two pages and keeps that size.",
   note=L1NOTE + " Single faults; faults injected at the libc boundary.", tech="TLA+ L1 spec with fault actions + TLC; exhaustive single-fault injection on the real code"),
 "C12": dict(cat="model_checking", ref="DESIGN.md 6 (C12)",
   text="PageStore with Damage(slot) at quiescent points model-checked (FallbackIntact, AfterCrash). Gen_Damage enables Damage for each slot after open and after every acknowledged commit of recorded executions; each recipe is concretised as every single-byte change at every offset of the header page (several masks), zeroing, all-ones, random overwrites; the real code must open and show the other header's commit (either, where the pinned layout neither hashes nor reads the byte), pass DB::check and commit again.",
   note=L1NOTE, tech="TLA+ L1 spec + TLC; TLC-generated damage recipes concretised exhaustively per byte"),
 "C13": dict(cat="model_checking", ref="DESIGN.md 6 (C13), 3.4",
   text="OpenLock.tla (open-or-create, lock, initialise if empty, map, commit a marker, close) model-checked for 3 processes, file present or absent: Exclusive, SeesAll, NoFailure, NothingLost, Waits (fair); the pinned create-before-lock order violates NoFailure (vacuity guard). Every ordering with <= k preemptions is forced on real processes gated at the open/init/lock hook points; overlap is observed by effect (monotonic intervals, markers seen, exit status); plus ungated runs with random offsets and hold times. Exclusive additionally without a depth bound: an inductive invariant of OpenLock.tla (OpenLock_Ind.tla) discharged by Apalache.",
   note="Trusted: TLC; transcription of the open path; orderings forced at hook points only; flock observed by effect.", tech="TLA+ L3 spec + TLC; TLC-generated orderings forced on real processes; Apalache inductive invariant"),
 "C15": dict(cat="translation_validation", ref="DESIGN.md 6 (C15)",
   text="Golden files written once by the pinned release (4 page sizes, nested buckets, multi-page values, non-empty free list) and their legacy-header rewrites are recorded behaviours the current code must accept and extend: Trace_KV starts from the recorded logical content, Trace_Page from the independent parse of the file (structure, accounting, header choice), a seeded random history is committed on top and validated step by step incl. every page image, the final file is parsed again; every mismatching page size must be refused with the file unchanged. Besides the truncated files: files the pinned release created with 4 pages and grew by its 8 MiB step (untruncated length) and files whose committed free list spans several pages.",
   note="Trusted: parse.rs encodes the pinned layout (incl. SHA3 legacy header) literally; golden files generated from commit f5c2214.", tech="golden files as recorded behaviours validated by the TLA+ trace specs; independent parser as layout oracle"),
 "C16": dict(cat="model_checking", ref="DESIGN.md 6 (C16)",
   text="L0 has no option variable: the same TLC-generated histories with TLC-computed results are replayed under a covering array (quick) / the full product (thorough) of page size x initial pages x strict x populate; non-multiple-of-8 page sizes must work or be refused without killing the process; growth runs drive a 4-page file across several 8 MiB extensions with the high-water mark creeping over each file end (also exactly one page beyond, and by more than one step at once), every write validated by Trace_Page to lie inside the file as it was, values read back through the same handle.",
   note="Trusted: TLC, exec.rs projection, libc interposer.", tech="TLA+ L0 spec + TLC; option-product replay; trace validation of growth"),
}

NOT_YET = "check not built yet in this revision of the framework (see DESIGN.md 9 for the construction order)"
NA = {
 "C14": "compile-time property of Rust's type system (lifetimes, Send): there is no transition system to specify or trace; see DESIGN.md 8",
}

ALL = ["C%02d" % i for i in range(1, 17)]

def main():
    checks = []
    for pid in ALL:
        if pid not in CLAIMED:
            continue
        c = CLAIMED[pid]
        checks.append(dict(
            property_id=pid,
            quick_cmd="./check %s --tier quick" % pid,
            thorough_cmd="./check %s --tier thorough" % pid,
            evidence_file="/verif/evidence/%s.json" % pid,
            replay_cmd_template="./check %s --replay {path}" % pid,
            engine="tlc+jvh",
            level_claimed=dict(category=c["cat"], text=c["text"], design_ref=c["ref"]),
            level_note=c["note"],
            technique=c["tech"]))
    na = []
    for pid in ALL:
        if pid in CLAIMED:
            continue
        na.append(dict(property_id=pid, reason=NA.get(pid, NOT_YET)))
    m = dict(
        version=1,
        setup_cmd="cd /verif/harness && cargo build --offline",
        hooks=dict(guard="jammdb_verif",
                   enable="RUSTFLAGS='--cfg jammdb_verif' (set in /verif/harness/.cargo/config.toml; the harness has a path dependency on /repo)",
                   baseline_off_cmd="cd /repo && cargo test --offline",
                   source_commits=open(os.path.join(V, "hooks_commits.txt")).read().split(),
                   add_only=True),
        engines=[dict(name="tlc+jvh", path="/verif/check", serves_properties=sorted(CLAIMED),
                      kind_free_text="TLA+ specifications (spec/) checked by TLC; Rust conformance harness (harness/) replays TLC behaviours into jammdb and records traces that TLC validates")],
        checks=checks,
        notes="Exit codes: 0 held, 1 VIOLATION, 2 tool/conformance error. Known findings: /verif/known_findings.json.",
        not_applicable=na)
    json.dump(m, open(os.path.join(V, "MANIFEST.json"), "w"), indent=1)

if __name__ == "__main__":
    main()
