#!/usr/bin/env python3
"""Writes MANIFEST.json from the table below (kept in one place so that it stays valid)."""
import json, os
V = os.path.dirname(os.path.dirname(os.path.abspath(__file__)))

CLAIMED = {
 "C01": dict(cat="model_checking", ref="DESIGN.md 6 (C01), 3.1, 4.4",
   text="L0 reference semantics (KVOps/KVStore.tla) model-checked by TLC; TLC-enumerated behaviours (every function Active -> initial kind x action x ending, over tree-shape profiles) replayed on the real code with every result compared, and seeded random histories of the real code trace-validated by TLC against the same specification.",
   note="Trusted: TLC, harness projection (exec.rs), the correspondence Do <-> public API; bounded key universes (<= 48 keys per bucket, depth <= 3).",
   tech="TLA+ L0 spec + TLC; spec->impl behaviour replay and impl->spec trace validation"),
}

NOT_YET = "check not built yet in this revision of the framework (see DESIGN.md 9 for the construction order)"
NA = {
 "C14": "compile-time property of Rust's type system (lifetimes, Send): there is no transition system to specify or trace; see DESIGN.md 8",
}

ALL = ["C%02d" % i for i in range(1, 17)]

def main():
    checks = []
    for pid in ALL:
        if pid not in CLAIMED:
            continue
        c = CLAIMED[pid]
        checks.append(dict(
            property_id=pid,
            quick_cmd="./check %s --tier quick" % pid,
            thorough_cmd="./check %s --tier thorough" % pid,
            evidence_file="/verif/evidence/%s.json" % pid,
            replay_cmd_template="./check %s --replay {path}" % pid,
            engine="tlc+jvh",
            level_claimed=dict(category=c["cat"], text=c["text"], design_ref=c["ref"]),
            level_note=c["note"],
            technique=c["tech"]))
    na = []
    for pid in ALL:
        if pid in CLAIMED:
            continue
        na.append(dict(property_id=pid, reason=NA.get(pid, NOT_YET)))
    m = dict(
        version=1,
        setup_cmd="cd /verif/harness && cargo build --offline",
        hooks=dict(guard="jammdb_verif",
                   enable="RUSTFLAGS='--cfg jammdb_verif' (set in /verif/harness/.cargo/config.toml; the harness has a path dependency on /repo)",
                   baseline_off_cmd="cd /repo && cargo test --offline",
                   source_commits=open(os.path.join(V, "hooks_commits.txt")).read().split(),
                   add_only=True),
        engines=[dict(name="tlc+jvh", path="/verif/check", serves_properties=sorted(CLAIMED),
                      kind_free_text="TLA+ specifications (spec/) checked by TLC; Rust conformance harness (harness/) replays TLC behaviours into jammdb and records traces that TLC validates")],
        checks=checks,
        notes="Exit codes: 0 held, 1 VIOLATION, 2 tool/conformance error. Known findings: /verif/known_findings.json.",
        not_applicable=na)
    json.dump(m, open(os.path.join(V, "MANIFEST.json"), "w"), indent=1)

if __name__ == "__main__":
    main()
