"""C11 binding: every I/O call of every commit of a history made to fail (jvh fault-run)."""
import json, os
from vlib import *
import kv, l1


def history_from_random(run, tag):
    """A history (list of steps) taken from a seeded random run of the real code."""
    build_harness()
    tf = os.path.join(scratch(), "%s-src-%s-%d.ndjson" % (tag, run["profile"], run["seed"]))
    args = ["trace", "--seed", run["seed"], "--n", 1, "--len", run["len"], "--profile", run["profile"],
            "--nkeys", run["nkeys"], "--nvals", run["nvals"], "--out", tf, "--readback", "0"] + list(run.get("args", []))
    p = run_jvh(args)
    if p.returncode != 0:
        raise ToolError("cannot record a source history: rc %d" % p.returncode)
    lines = read_lines(tf)
    steps = kv.to_steps([json.loads(x) for x in lines])
    os.remove(tf)
    # keep the mutating skeleton: begins, mutators, commits/drops; drop check/reopen steps
    keep = []
    for s in steps:
        if s["a"] in ("begin", "commit", "drop"):
            keep.append(s)
        elif s["a"] == "op" and s["c"] in ("put", "del", "mkb", "gocb", "delb"):
            keep.append(s)
    return keep


def history_bigfree(nkeys=64, nvals=6):
    """A synthetic history whose free list spans more than one page (profile overflow: values of up to 9 pages):
    a nested bucket with nkeys/2 large values is created and deleted (its pages are released by the next writer), then
    small commits follow -- each of them rewrites a free list that keeps its number of pages."""
    def op(t, c, p, k, v=0):
        return dict(a="op", t=t, c=c, p=p, k=k, v=v, lk="U", lo=0, hk="U", hi=0)
    steps = []
    t = 1
    steps += [dict(a="begin", t=t, w=True), op(t, "gocb", [], 0), op(t, "put", [0], 1, 4), op(t, "mkb", [0], nkeys - 1)]
    steps += [op(t, "put", [0, nkeys - 1], k, (k % 5) + 1) for k in range(nkeys // 2)]
    steps += [dict(a="commit", t=t)]
    t += 1
    steps += [dict(a="begin", t=t, w=True), op(t, "delb", [0], nkeys - 1), dict(a="commit", t=t)]
    for i in range(4):
        t += 1
        steps += [dict(a="begin", t=t, w=True), op(t, "put", [0], 2 + i, 4), op(t, "put", [0], 1, 0 if i % 2 else 4),
                  dict(a="commit", t=t)]
    return steps


def fault_runs(verdict, run, steps, tag, scope=None, extra=()):
    build_harness()
    d = scratch()
    hf = os.path.join(d, "%s-hist.json" % tag)
    with open(hf, "w") as f:
        json.dump({"steps": steps}, f)
    out = hf + ".out"
    tf = hf + ".trace"
    p = run_jvh(["fault-run", "--hist", hf, "--profile", run["profile"], "--nkeys", run["nkeys"], "--nvals", run["nvals"],
                 "--out", out, "--trace-out", tf] + list(extra), timeout=3000)
    res = read_lines(out) if os.path.exists(out) else []
    summary = None
    for ln in res:
        o = json.loads(ln)
        if o.get("summary"):
            summary = o
            continue
        what = o.get("what", "")
        cls = ("panic" if "panicked" in what else "neither-pre-nor-post" if "neither" in what else
               "check" if "DB::check" in what else "follow-up" if "follow-up" in what else
               "reopen" if "reopen" in what or "differs after" in what else "result")
        fault = o.get("fault", "")
        fk = "growth" if "growth" in fault else "short" if "short" in fault else "error"
        verdict.report({"kind": "fault", "class": cls, "fault_kind": fk, "profile": run["profile"]},
                       {"run": run, "history": steps, "fault": fault, "commit": o.get("commit"), "what": what,
                        "commit_result": o.get("commit_result"), "extra": list(extra),
                        "how": "jvh fault-run --hist <history as {steps:..}> --profile .. --commit <commit>; see 'fault'"})
    if p.returncode != 0:
        verdict.report({"kind": "hang" if p.returncode == 86 else "abort", "rc": p.returncode, "profile": run["profile"],
                        "during": "fault-run"},
                       {"run": run, "history": steps, "stderr": p.stderr[-1500:]})
        # keep what was recorded
        lines = read_lines(tf) if os.path.exists(tf) else []
        if lines:
            try:
                json.loads(lines[-1])
            except Exception:
                open(tf, "w").write("\n".join(lines[:-1]) + "\n")
    st = dict(events=0, states=0, writes=0, commits=0)
    if os.path.exists(tf) and os.path.getsize(tf) > 0:
        st = l1.page_trace(verdict, tf, run, also_kv=False, scope=scope, sync_rule="1")
    for x in (hf, out, tf):
        if os.path.exists(x):
            os.remove(x)
    return summary or dict(runs=0, bad=0, commits=0, calls=[], outcomes={}), st
