"""C02 binding: crash recipes from Gen_Crash over recorded executions, concretised and
reopened by `jvh crash-run`."""
import json, os, shutil, subprocess
from vlib import *
import vlib


def gen_recipes(tf):
    out = vlib._tlc("Gen_Crash", "Gen_Crash.cfg", 1, extra_env={"TRACE": tf}, dfs=True, xmx="6g", timeout=1800)
    states, trans = tlc_stats(out)
    if "Error:" in out or states == 0:
        log(out[-3000:])
        raise ToolError("Gen_Crash failed on %s" % tf)
    rec = parse_printed_json(out)
    rf = tf + ".recipes"
    with open(rf, "w") as f:
        for r in rec:
            f.write(json.dumps(r) + "\n")
    return rf, len(rec), states


def run_recipes(verdict, tf, raw, rf, run, jobs=8, many=False, keep_dir=None):
    """Returns dict(images, recipes, outcomes)."""
    build_harness()
    tot = dict(images=0, recipes=0, bad=0, outcomes={})
    pending = [(j, j) for j in range(jobs)]   # (job id, skip)
    while pending:
        procs = []
        for j, skip in pending:
            out = "%s.out.%d" % (rf, j)
            cmd = [JVH, "crash-run", "--trace", tf, "--raw", raw, "--recipes", rf, "--profile", run["profile"],
                   "--nkeys", str(run["nkeys"]), "--nvals", str(run["nvals"]), "--out", out,
                   "--skip", str(skip), "--stride", str(jobs)] + (["--many", "1"] if many else [])
            procs.append((subprocess.Popen(cmd, stdout=subprocess.DEVNULL, stderr=subprocess.PIPE, text=True), j, skip, out))
        pending = []
        for p, j, skip, out in procs:
            _, err = p.communicate()
            lines = read_lines(out) if os.path.exists(out) else []
            for ln in lines:
                try:
                    o = json.loads(ln)
                except Exception:
                    continue
                if o.get("summary"):
                    for k in ("images", "recipes", "bad"):
                        tot[k] += o[k]
                    for k, n in o["outcomes"].items():
                        tot["outcomes"][k] = tot["outcomes"].get(k, 0) + n
                    continue
                report_image(verdict, o, tf, raw, run)
            if p.returncode != 0:
                try:
                    idx = int(open(out + ".progress").read().strip())
                except Exception:
                    raise ToolError("crash-run died without progress: %s" % (err or "")[-400:])
                rec = json.loads(read_lines(rf)[idx])
                report_image(verdict, {"line": idx, "recipe": rec, "variant": "?", "matched": -1,
                                       "what": "process %s while reopening the image" % ("hung" if p.returncode == 86 else "aborted (rc %d)" % p.returncode)},
                             tf, raw, run)
                nxt = idx + jobs
                if nxt < len(read_lines(rf)):
                    pending.append((j, nxt))
            for x in (out, out + ".progress"):
                if os.path.exists(x):
                    os.remove(x)
    return tot


def report_image(verdict, o, tf, raw, run):
    rec = o["recipe"]
    what = o.get("what", "")
    cls = ("open-failed" if what.startswith("open") else
           "wrong-commit" if what.startswith("recovered the state") else
           "mixed-state" if what.startswith("recovered content") else
           "check-failed" if what.startswith("DB::check") else
           "follow-up-failed" if what.startswith("follow-up") or what.startswith("reopen after") else "died")
    hdr_only = False
    sig = {"kind": "crash", "crash": rec.get("kind"), "class": cls, "torn": len(rec.get("T", [])) > 0,
           "profile": run.get("profile")}
    # keep the recorded execution next to the replay file: placement is not reproducible
    h = hashlib.sha1(json.dumps(sig, sort_keys=True).encode()).hexdigest()[:10]
    d = os.path.join(REPLAYS, "%s-%s.d" % (verdict.prop, h))
    if not os.path.isdir(d):
        os.makedirs(d, exist_ok=True)
        shutil.copy(tf, os.path.join(d, "trace.ndjson"))
        shutil.copy(raw, os.path.join(d, "writes.raw"))
        with open(os.path.join(d, "recipe.ndjson"), "w") as f:
            f.write(json.dumps(rec) + "\n")
    verdict.report(sig, {"run": run, "recipe": rec, "variant": o.get("variant"), "what": what, "panic": o.get("panic"),
                         "files": d, "how": "jvh crash-run --trace files/trace.ndjson --raw files/writes.raw --recipes files/recipe.ndjson --profile <run.profile> --nkeys .. --nvals .."})


# ------------------------------------------------------------------------------------------
# header damage (C12)
# ------------------------------------------------------------------------------------------

def gen_damage_recipes(tf):
    out = vlib._tlc("Gen_Damage", "Gen_Damage.cfg", 1, extra_env={"TRACE": tf}, dfs=True, xmx="6g", timeout=1800)
    states, trans = tlc_stats(out)
    if "Error:" in out or states == 0:
        log(out[-3000:])
        raise ToolError("Gen_Damage failed on %s" % tf)
    rec = [r for r in parse_printed_json(out) if isinstance(r, dict) and "slot" in r]
    rf = tf + ".dmg"
    with open(rf, "w") as f:
        for r in rec:
            f.write(json.dumps(r) + "\n")
    return rf, rec, states


def run_damage(verdict, tf, raw, rf, run, jobs=8, extra=()):
    build_harness()
    tot = dict(images=0, recipes=0, bad=0, outcomes={})
    nrec = len(read_lines(rf))
    pending = [(j, j) for j in range(min(jobs, nrec))]
    while pending:
        procs = []
        for j, skip in pending:
            out = "%s.out.%d" % (rf, j)
            cmd = [JVH, "damage-run", "--trace", tf, "--raw", raw, "--recipes", rf, "--profile", run["profile"],
                   "--nkeys", str(run["nkeys"]), "--nvals", str(run["nvals"]), "--out", out,
                   "--skip", str(skip), "--stride", str(jobs), "--seed", str(run["seed"])] + [str(x) for x in extra]
            procs.append((subprocess.Popen(cmd, stdout=subprocess.DEVNULL, stderr=subprocess.PIPE, text=True), j, skip, out))
        pending = []
        for p, j, skip, out in procs:
            _, err = p.communicate()
            for ln in (read_lines(out) if os.path.exists(out) else []):
                try:
                    o = json.loads(ln)
                except Exception:
                    continue
                if o.get("summary"):
                    for k in ("images", "recipes", "bad"):
                        tot[k] += o[k]
                    for k, n in o["outcomes"].items():
                        tot["outcomes"][k] = tot["outcomes"].get(k, 0) + n
                    continue
                report_damage(verdict, o, tf, raw, run)
            if p.returncode != 0:
                try:
                    idx, pi = [int(x) for x in open(out + ".progress").read().split()]
                except Exception:
                    raise ToolError("damage-run died without progress: %s" % (err or "")[-400:])
                rec = json.loads(read_lines(rf)[idx])
                report_damage(verdict, {"line": idx, "recipe": rec, "pattern": "pattern #%d" % pi, "significant": True,
                                        "what": "process %s while opening the damaged file" %
                                                ("hung" if p.returncode == 86 else "aborted (rc %d): %s" % (p.returncode, (err or "").strip()[-200:]))},
                              tf, raw, run)
                if idx + jobs < nrec:
                    pending.append((j, idx + jobs))
            for x in (out, out + ".progress"):
                if os.path.exists(x):
                    os.remove(x)
    return tot


def damage_region(pattern):
    if pattern.startswith("byte"):
        off = int(pattern[4:].split("^")[0])
        return ("page-type" if off == 8 else "page-header" if off < 32 else "record" if off < 96 else
                "hash" if off < 104 else "tail")
    return pattern.split("@")[0].rstrip("0123456789")


def report_damage(verdict, o, tf, raw, run):
    rec = o["recipe"]
    what = o.get("what", "")
    cls = ("open-failed" if what.startswith("open") else "wrong-commit" if what.startswith("recovered the state") else
           "mixed-state" if what.startswith("recovered content") else "check-failed" if what.startswith("DB::check") else
           "follow-up-failed" if "follow-up" in what else "died")
    sig = {"kind": "damage", "class": cls, "region": damage_region(o.get("pattern", "")),
           "newest_damaged": rec.get("slot") == rec.get("newest"), "profile": run.get("profile")}
    h = hashlib.sha1(json.dumps(sig, sort_keys=True).encode()).hexdigest()[:10]
    d = os.path.join(REPLAYS, "%s-%s.d" % (verdict.prop, h))
    if not os.path.isdir(d):
        os.makedirs(d, exist_ok=True)
        shutil.copy(tf, os.path.join(d, "trace.ndjson"))
        shutil.copy(raw, os.path.join(d, "writes.raw"))
        with open(os.path.join(d, "recipe.ndjson"), "w") as f:
            f.write(json.dumps(rec) + "\n")
    verdict.report(sig, {"run": run, "recipe": rec, "pattern": o.get("pattern"), "what": what, "panic": o.get("panic"),
                         "files": d, "how": "jvh damage-run --trace files/trace.ndjson --raw files/writes.raw --recipes files/recipe.ndjson ..."})
