-------------------------- MODULE PageRules_Proofs --------------------------
(***************************************************************************)
(* Deductive leg (TLAPS) for the release rule that PageStore, Threads,      *)
(* Trace_Page and Trace_Threads share: what ReleaseBoundOK allows to be     *)
(* released is needed by no open reader, for every bound, every set of      *)
(* snapshots and every pending map -- no bound on sizes.                    *)
(*                                                                         *)
(* pending[t] holds the pages that writer t unlinked: they belong to        *)
(* snapshots < t only.  A reader on snapshot s needs pending[t] exactly if  *)
(* t > s.                                                                  *)
(*   tlapm --threads 4 PageRules_Proofs.tla                                 *)
(***************************************************************************)
EXTENDS Integers, TLAPS

ReleaseBoundOK(b, txid, snaps) == \A s \in snaps \cup {txid - 1} : b - 1 <= s
Released(pendKeys, b) == {t \in pendKeys : t < b}
NeededBy(s, pendKeys) == {t \in pendKeys : t > s}

\* (the two operators above are PageRules' own, with DOMAIN pend written as a set of integers)
THEOREM ReleaseIsSafe ==
    ASSUME NEW b \in Int, NEW txid \in Int, NEW snaps \in SUBSET Int, NEW pendKeys \in SUBSET Int,
           ReleaseBoundOK(b, txid, snaps)
    PROVE  \A s \in snaps : Released(pendKeys, b) \cap NeededBy(s, pendKeys) = {}
<1> SUFFICES ASSUME NEW s \in snaps, NEW t \in Released(pendKeys, b) \cap NeededBy(s, pendKeys)
             PROVE  FALSE
  OBVIOUS
<1>1. b - 1 <= s
  BY DEF ReleaseBoundOK
<1>2. t \in Int /\ t < b /\ t > s
  BY DEF Released, NeededBy
<1> QED
  BY <1>1, <1>2

\* ... and nothing the writer itself (transaction txid, building on snapshot txid - 1) still reads is released
THEOREM ReleaseSparesTheWriter ==
    ASSUME NEW b \in Int, NEW txid \in Int, NEW snaps \in SUBSET Int, NEW pendKeys \in SUBSET Int,
           ReleaseBoundOK(b, txid, snaps)
    PROVE  Released(pendKeys, b) \cap NeededBy(txid - 1, pendKeys) = {}
  BY DEF ReleaseBoundOK, Released, NeededBy

\* the bound jammdb computes: the oldest registered snapshot, or its own id when nobody is registered
CodeBound(txid, snaps) == IF snaps = {} THEN txid ELSE CHOOSE m \in snaps : \A s \in snaps : m <= s

THEOREM CodeBoundIsAllowed ==
    ASSUME NEW txid \in Int, NEW snaps \in SUBSET Int,
           \A s \in snaps : s <= txid - 1,                 \* a reader's snapshot is a committed one
           snaps = {} \/ \E m \in snaps : \A s \in snaps : m <= s
    PROVE  ReleaseBoundOK(CodeBound(txid, snaps), txid, snaps)
<1>1. CASE snaps = {}
  BY <1>1 DEF ReleaseBoundOK, CodeBound
<1>2. CASE snaps # {}
  <2> DEFINE m == CHOOSE x \in snaps : \A s \in snaps : x <= s
  <2>1. m \in snaps /\ \A s \in snaps : m <= s
    BY <1>2
  <2>2. CodeBound(txid, snaps) = m
    BY <1>2 DEF CodeBound
  <2> QED
    BY <2>1, <2>2 DEF ReleaseBoundOK
<1> QED
  BY <1>1, <1>2
=============================================================================
