------------------------------ MODULE OpenLock ------------------------------
(***************************************************************************)
(* L3 -- processes opening / creating / locking / closing one database      *)
(* file (C13).  One action per code segment of OpenOptions::open, init_file *)
(* and DBInner::open between two consecutive hook points; the program       *)
(* counter of a process is the hook point it is parked at.                  *)
(*                                                                         *)
(*   LockFirst = FALSE   the pinned order: test existence, create + write   *)
(*                       the initial pages, THEN take the lock              *)
(*   LockFirst = TRUE    open-or-create, take the lock, initialise if empty *)
(***************************************************************************)
EXTENDS Integers, Sequences, FiniteSets, TLC

\* (the @type comments are for Apalache, see OpenLock_Ind.tla; TLC ignores them)
CONSTANTS
    \* @type: Set(Int);
    Procs,
    \* @type: Bool;
    FileExists,
    \* @type: Bool;
    LockFirst

VARIABLES
    \* @type: Int -> Str;
    pc,        \* process -> hook point
    \* @type: Bool;
    exists,    \* the path exists
    \* @type: Bool;
    inited,    \* the file holds valid header pages
    \* @type: Int;
    len,       \* 0 or >0: the file has been allocated
    \* @type: Int;
    holder,    \* process holding the exclusive lock (0 none)
    \* @type: Seq(Int);
    markers,   \* committed markers, in commit order
    \* @type: Int -> Seq(Int);
    seen,      \* process -> markers it found when it got in
    \* @type: Int -> Seq(Int);
    closedBefore, \* process -> markers committed by processes that had closed before it started
    \* @type: Int -> Str;
    result     \* process -> "" | "ok" | failure

vars == <<pc, exists, inited, len, holder, markers, seen, closedBefore, result>>

Init ==
    /\ pc = [p \in Procs |-> "start"]
    /\ exists = FileExists /\ inited = FileExists /\ len = IF FileExists THEN 1 ELSE 0
    /\ holder = 0 /\ markers = <<>>
    /\ seen = [p \in Procs |-> <<>>] /\ closedBefore = [p \in Procs |-> <<>>]
    /\ result = [p \in Procs |-> ""]

Goto(p, x) == pc' = [pc EXCEPT ![p] = x]
Fail(p, why) == result' = [result EXCEPT ![p] = why] /\ Goto(p, "done")

\* open:enter : the process starts; everything committed by processes that are already gone
\* must be visible to it later
Enter(p) ==
    /\ pc[p] = "start"
    /\ closedBefore' = [closedBefore EXCEPT ![p] = markers]
    /\ Goto(p, "open:enter")
    /\ UNCHANGED <<exists, inited, len, holder, markers, seen, result>>

\* path.exists()
CheckExists(p) ==
    /\ pc[p] = "open:enter"
    /\ Goto(p, IF exists \/ LockFirst THEN "open:existing" ELSE "init:enter")
    /\ UNCHANGED <<exists, inited, len, holder, markers, seen, closedBefore, result>>

\* open_file(create_new)
Create(p) ==
    /\ pc[p] = "init:enter"
    /\ IF exists
       THEN Fail(p, "AlreadyExists") /\ UNCHANGED <<exists, inited, len, holder, markers, seen, closedBefore>>
       ELSE /\ exists' = TRUE /\ Goto(p, "init:created")
            /\ UNCHANGED <<inited, len, holder, markers, seen, closedBefore, result>>

Allocate(p) ==
    /\ pc[p] = "init:created"
    /\ len' = 1
    /\ Goto(p, "init:allocated")
    /\ UNCHANGED <<exists, inited, holder, markers, seen, closedBefore, result>>

\* the four initial pages are written (over whatever the file holds!)
WriteInit(p) ==
    /\ pc[p] = "init:allocated"
    /\ inited' = TRUE
    /\ markers' = <<>>               \* a file initialised again loses what was committed
    /\ Goto(p, "init:synced")
    /\ UNCHANGED <<exists, len, holder, seen, closedBefore, result>>

HaveFileNew(p) ==
    /\ pc[p] = "init:synced"
    /\ Goto(p, "open:before_lock")
    /\ UNCHANGED <<exists, inited, len, holder, markers, seen, closedBefore, result>>

\* open_file(existing) -- with LockFirst: open-or-create
OpenExisting(p) ==
    /\ pc[p] = "open:existing"
    /\ IF ~exists /\ ~LockFirst
       THEN Fail(p, "NotFound") /\ UNCHANGED <<exists, inited, len, holder, markers, seen, closedBefore>>
       ELSE /\ exists' = TRUE
            /\ Goto(p, "open:before_lock")
            /\ UNCHANGED <<inited, len, holder, markers, seen, closedBefore, result>>

\* lock_exclusive(): blocks while another process holds the lock
Lock(p) ==
    /\ pc[p] = "open:before_lock"
    /\ holder = 0
    /\ holder' = p
    /\ Goto(p, "open:locked")
    /\ UNCHANGED <<exists, inited, len, markers, seen, closedBefore, result>>

\* with LockFirst the holder of the lock initialises an empty file
InitUnderLock(p) ==
    /\ LockFirst /\ pc[p] = "open:locked" /\ ~inited
    /\ inited' = TRUE /\ len' = 1
    /\ UNCHANGED <<pc, exists, holder, markers, seen, closedBefore, result>>

\* mmap + header choice + free list: needs an initialised file
MapAndRead(p) ==
    /\ pc[p] = "open:locked"
    /\ ~LockFirst \/ inited
    /\ IF ~inited
       THEN /\ Fail(p, IF len = 0 THEN "EmptyFile" ELSE "NoValidHeader")
            /\ holder' = 0
            /\ UNCHANGED <<exists, inited, len, markers, seen, closedBefore>>
       ELSE /\ seen' = [seen EXCEPT ![p] = markers]
            /\ Goto(p, "open:done")
            /\ UNCHANGED <<exists, inited, len, holder, markers, closedBefore, result>>

\* inside the database: commit a marker
CommitMarker(p) ==
    /\ pc[p] = "open:done"
    /\ markers' = Append(markers, p)
    /\ Goto(p, "in-db")
    /\ UNCHANGED <<exists, inited, len, holder, seen, closedBefore, result>>

\* the handle is dropped: the lock goes with it
Close(p) ==
    /\ pc[p] = "in-db"
    /\ holder' = IF holder = p THEN 0 ELSE holder
    /\ result' = [result EXCEPT ![p] = "ok"]
    /\ Goto(p, "done")
    /\ UNCHANGED <<exists, inited, len, markers, seen, closedBefore>>

Step(p) ==
    \/ Enter(p) \/ CheckExists(p) \/ Create(p) \/ Allocate(p) \/ WriteInit(p) \/ HaveFileNew(p) \/ OpenExisting(p)
    \/ Lock(p) \/ InitUnderLock(p) \/ MapAndRead(p) \/ CommitMarker(p) \/ Close(p)

AllDone == \A p \in Procs : pc[p] = "done"
Next == (\E p \in Procs : Step(p)) \/ (AllDone /\ UNCHANGED vars)
Spec == Init /\ [][Next]_vars
FairSpec == Spec /\ \A p \in Procs : WF_vars(Step(p))

InDB(p) == pc[p] \in {"open:done", "in-db"}
\* C13: two openers are never inside the database at the same time
Exclusive == Cardinality({p \in Procs : InDB(p)}) <= 1
\* ... and an opener sees everything committed by those that had closed before it started
IsPrefixOf(a, b) == Len(a) <= Len(b) /\ SubSeq(b, 1, Len(a)) = a
SeesAll == \A p \in Procs : InDB(p) => IsPrefixOf(closedBefore[p], seen[p])
\* nothing committed is ever lost
NothingLost == [][IsPrefixOf(markers, markers')]_vars
\* no opener fails
NoFailure == \A p \in Procs : result[p] \in {"", "ok"}
\* every opener eventually gets in and out
Waits == <>AllDone
=============================================================================
