------------------------------- MODULE BTree -------------------------------
(***************************************************************************)
(* L0.5 -- the copy-on-write B+tree of ONE bucket inside ONE write          *)
(* transaction, transcribed from the code (bucket.rs: search / node /       *)
(* put_leaf / delete / rebalance / merge_nodes / spill, node.rs: spill /    *)
(* split / write / insert_branch / insert_child / merge, cursor.rs: search, *)
(* page_node.rs: index).  One operator per function, same case analysis,    *)
(* same order of effects; the places where the code panics are explicit     *)
(* (the `panic` field), so that "commit never panics and the tree it leaves *)
(* is a search tree holding exactly the reference map" is an invariant TLC  *)
(* decides for every history within the bounds.                             *)
(*                                                                         *)
(* Abstractions: keys are 1..NKeys in byte order; every leaf element has    *)
(* the same size LeafElem (32 + key + value bytes), every branch element    *)
(* BranchElem (24 + key bytes); a value is a small version number (1, 2 a    *)
(* pair; 10, 11 the entry of a nested bucket, which changes when the nested  *)
(* bucket was modified: nested buckets are entries of this tree, their own   *)
(* trees are not modelled); page ids                                         *)
(* are never reused inside the model (reuse is L1's business), but every    *)
(* free_page is recorded so that leaks and double use are visible; a run of *)
(* overflow pages is one page.                                              *)
(***************************************************************************)
EXTENDS Integers, Sequences, FiniteSets, TLC

CONSTANTS NKeys, PageSize, LeafElem, BranchElem,
          BigKeys, BigElem,   \* keys whose pairs carry a large value (their leaf element has BigElem bytes: overflow runs)
          Pinned      \* subset of {"F1", "F2", "F6", "F13", "F14"}: repairs switched OFF (the pinned code; vacuity guards)

HEADER == 40                          \* size_of::<Page>() (the ptr field included)
MINKEYS == 2
Threshold == PageSize \div 2          \* ((pagesize as f32) * FILL_PERCENT) as u64
Keys == 1..NKeys
Depth0 == NKeys + 3

Max(a, b) == IF a > b THEN a ELSE b
Range(f) == {f[i] : i \in DOMAIN f}
RemoveAt(q, i) == SubSeq(q, 1, i - 1) \o SubSeq(q, i + 1, Len(q))
InsertAt(q, i, e) == SubSeq(q, 1, i - 1) \o <<e>> \o SubSeq(q, i, Len(q))     \* e becomes q[i]
Rev(q) == [i \in 1..Len(q) |-> q[Len(q) + 1 - i]]
IsSorted(q) == \A i \in 1..Len(q) - 1 : q[i] < q[i + 1]

(* ---- the state threaded through a transaction ----------------------- *)
(* pages   : page id -> [leaf, keys, kids]   (kids: child page ids of a      *)
(*           branch / value versions of a leaf, parallel to keys)           *)
(* nodes   : the transaction's nodes in creation order (NodeID = index)     *)
(* pnode   : page_node_ids          pparent : page_parents                  *)
(* root    : meta.root_page         freed   : pages handed to free_page     *)
(* next    : next unused page id    dirty, panic                            *)

Panic(s, why) == IF s.panic = "" THEN [s EXCEPT !.panic = why] ELSE s

\* a pair under a key of BigKeys is large; the entry of a nested bucket (value >= 10) has the ordinary size
ElemSize(n, i) == IF ~n.leaf THEN BranchElem
                  ELSE IF n.keys[i] \in BigKeys /\ n.kids[i] < 10 THEN BigElem ELSE LeafElem
RECURSIVE SumSizes(_, _)
SumSizes(n, i) == IF i = 0 THEN 0 ELSE ElemSize(n, i) + SumSizes(n, i - 1)
Size(n) == HEADER + SumSizes(n, Len(n.keys))
NeedsMerging(n) == Len(n.keys) < MINKEYS \/ Size(n) < PageSize \div 4

\* binary_search_by_key on a sorted sequence: number of keys smaller than k
Pos(keys, k) == Cardinality({i \in 1..Len(keys) : keys[i] < k})
Found(keys, k) == \E i \in 1..Len(keys) : keys[i] = k
\* PageNode::index -- 1-based index and "exact"
Index(keys, k) ==
    IF Found(keys, k) THEN <<Pos(keys, k) + 1, TRUE>> ELSE <<Max(Pos(keys, k), 1), FALSE>>

\* InnerBucket::page_node
PageNode(s, pid) == IF pid \in DOMAIN s.pnode THEN s.nodes[s.pnode[pid]] ELSE s.pages[pid]

\* cursor.rs search(): returns the state (page_parents grows), exact, the path <<page id, index>>
RECURSIVE SearchFrom(_, _, _, _)
SearchFrom(s, pid, key, path) ==
    LET pn == PageNode(s, pid)
        ix == Index(pn.keys, key)
        path2 == Append(path, <<pid, ix[1]>>)
    IN  IF pn.leaf THEN [s |-> s, exact |-> ix[2], path |-> path2]
        ELSE IF ix[1] > Len(pn.keys) THEN [s |-> s, exact |-> FALSE, path |-> path2]
        ELSE LET nx == pn.kids[ix[1]]
             IN  SearchFrom([s EXCEPT !.pparent = (nx :> pid) @@ @], nx, key, path2)
Search(s, key) == SearchFrom(s, s.root, key, <<>>)

\* Node::insert_child (both checks are debug assertions in the code)
InsertChild(s, par, id, key) ==
    LET p == s.nodes[par]
    IN  IF p.leaf THEN Panic(s, "CANNOT INSERT BRANCH INTO A LEAF NODE")
        ELSE IF id \in Range(p.children) THEN Panic(s, "debug: child inserted twice")
        ELSE IF ~Found(p.keys, key) THEN Panic(s, "debug: parent has no entry for the child's first key")
        ELSE [s EXCEPT !.nodes[par].children = Append(@, id), !.nodes[id].parent = par]

\* InnerBucket::node(PageNodeID::Page(pid), _): the node of a page, created (with every ancestor) on demand
RECURSIVE Mat(_, _)
Mat(s, pid) ==
    IF pid \in DOMAIN s.pnode \/ s.panic # "" THEN s
    ELSE IF pid \notin DOMAIN s.pages THEN Panic(s, "page does not exist")
    ELSE LET id == Len(s.nodes) + 1
             p == s.pages[pid]
             n == [pid |-> pid, leaf |-> p.leaf, keys |-> p.keys, kids |-> p.kids, children |-> <<>>,
                   okey |-> IF Len(p.keys) > 0 THEN p.keys[1] ELSE 0, parent |-> 0,
                   deleted |-> FALSE, spilled |-> FALSE]
             s1 == [s EXCEPT !.nodes = Append(@, n), !.pnode = (pid :> id) @@ @]
         IN  IF pid = s.root THEN s1
             ELSE IF Len(p.keys) = 0 THEN Panic(s1, "Cannot get key parts of empty data (node)")
             ELSE IF pid \notin DOMAIN s1.pparent THEN Panic(s1, "debug: cannot find reference to page")
             ELSE LET s2 == Mat(s1, s1.pparent[pid])
                  IN  IF s2.panic # "" THEN s2
                      ELSE InsertChild(s2, s2.pnode[s1.pparent[pid]], id, p.keys[1])

\* put_leaf (values: a fresh version per put, see KVVersion)
Put(s, k, v) ==
    LET r == Search(s, k)
        last == r.path[Len(r.path)]
        s1 == Mat(r.s, last[1])
    IN  IF s1.panic # "" THEN s1
        ELSE LET id == s1.pnode[last[1]]
                 n == s1.nodes[id]
             IN  IF ~n.leaf THEN Panic(s1, "CANNOT INSERT DATA INTO A BRANCH NODE")
                 ELSE IF Found(n.keys, k)
                      THEN [s1 EXCEPT !.nodes[id].kids[Pos(n.keys, k) + 1] = v, !.dirty = TRUE]
                      ELSE [s1 EXCEPT !.nodes[id].keys = InsertAt(n.keys, Pos(n.keys, k) + 1, k),
                                      !.nodes[id].kids = InsertAt(n.kids, Pos(n.keys, k) + 1, v),
                                      !.dirty = TRUE]

\* InnerBucket::delete
Del(s, k) ==
    LET r == Search(s, k)
        last == r.path[Len(r.path)]
    IN  IF ~r.exact THEN r.s                                   \* Err(KeyValueMissing)
        ELSE LET s1 == Mat(r.s, last[1])
             IN  IF s1.panic # "" THEN s1
                 ELSE LET id == s1.pnode[last[1]]
                      IN  [s1 EXCEPT !.nodes[id].keys = RemoveAt(@, last[2]),
                                     !.nodes[id].kids = RemoveAt(@, last[2]), !.dirty = TRUE]

\* ---- nested buckets: entries of this tree ------------------------------
\* s.open: InnerBucket::buckets, the nested buckets this transaction has opened, with the entry value that
\* spill will write for each (put_leaf for EVERY opened bucket, after merge_nodes, in HashMap order)
\* create_bucket (bucket_getter with should_create): the entry is inserted at once
MkB(s, k) ==
    LET s1 == Put(s, k, 10)
    IN  IF s1.panic # "" THEN s1 ELSE [s1 EXCEPT !.open = (k :> 10) @@ @]
\* get_bucket + a modification inside the nested bucket: nothing changes here until spill
Touch(s, k, v) ==
    LET r == Search(s, k)
    IN  [r.s EXCEPT !.open = (k :> v) @@ @, !.dirty = TRUE]
\* delete_bucket: the entry is removed (the nested bucket's own pages are L1's business)
DelB(s, k) ==
    LET r0 == Search(s, k)             \* get_bucket: search (the bucket enters the map and leaves it again)
        s1 == Del(r0.s, k)
    IN  [s1 EXCEPT !.open = [x \in DOMAIN @ \ {k} |-> @[x]]]
\* InnerBucket::spill, first half: the entries of the opened nested buckets are written back
PutOpened(s, order) ==
    LET F[i \in 0..Len(order)] ==
            IF i = 0 THEN s
            ELSE IF F[i - 1].panic # "" THEN F[i - 1]
            ELSE Put(F[i - 1], order[i], s.open[order[i]])
    IN  F[Len(order)]

\* get: the value version, 0 if absent
Get(s, k) ==
    LET r == Search(s, k)
        last == r.path[Len(r.path)]
        pn == PageNode(r.s, last[1])
    IN  IF r.exact /\ pn.leaf THEN pn.kids[last[2]] ELSE 0

(* ---- cursor: a full iteration inside the transaction ------------------ *)
(* seek_first / next / current of cursor.rs over pages and nodes; a stack   *)
(* entry is <<page id, index>>.                                            *)
RECURSIVE SeekFirst(_, _)
SeekFirst(s, stack) ==
    LET e == stack[Len(stack)]
        pn == PageNode(s, e[1])
    IN  IF pn.leaf \/ Len(pn.keys) = 0 THEN stack
        ELSE SeekFirst(s, Append(stack, <<pn.kids[e[2]], 1>>))

Current(s, stack) ==
    LET e == stack[Len(stack)]
        pn == PageNode(s, e[1])
    IN  IF ~pn.leaf \/ e[2] > Len(pn.keys) THEN 0 ELSE pn.keys[e[2]]

AtEmptyLeaf(s, stack) == Len(PageNode(s, stack[Len(stack)][1]).keys) = 0

\* the advance part of next(): <<stack, finished>>
RECURSIVE Advance(_, _)
Advance(s, stack) ==
    LET e == stack[Len(stack)]
        pn == PageNode(s, e[1])
    IN  IF e[2] + 1 > Len(pn.keys)
        THEN IF Len(stack) = 1 THEN <<stack, TRUE>>
             ELSE Advance(s, SubSeq(stack, 1, Len(stack) - 1))
        ELSE LET st2 == SeekFirst(s, [stack EXCEPT ![Len(stack)] = <<e[1], e[2] + 1>>])
             IN  IF Len(st2) > 1 /\ AtEmptyLeaf(s, st2) THEN Advance(s, st2) ELSE <<st2, FALSE>>

RECURSIVE ScanFrom(_, _, _, _)
ScanFrom(s, stack, out, fuel) ==
    IF fuel = 0 THEN Append(out, -1)
    ELSE LET c == Current(s, stack)
         IN  IF c = 0 THEN out
             ELSE LET a == Advance(s, stack)
                  IN  IF a[2] THEN Append(out, c) ELSE ScanFrom(s, a[1], Append(out, c), fuel - 1)

\* the first next() of a fresh cursor: seek_first, then skip leaves emptied by this transaction
Scan(s) ==
    LET st0 == SeekFirst(s, <<<<s.root, 1>>>>)
        first == IF Len(st0) > 1 /\ AtEmptyLeaf(s, st0)
                 THEN Advance(s, st0) ELSE <<st0, FALSE>>
    IN  IF first[2] THEN <<>> ELSE ScanFrom(s, first[1], <<>>, 4 * NKeys + 8)

(* ---- cursor: seek ------------------------------------------------------- *)
\* Cursor::step_back: to the last entry of the nearest leaf to the left that still holds one; <<stack, found>>
RECURSIVE StepBack(_, _)
StepBack(s, stack) ==
    LET top == stack[Len(stack)]
    IN  IF top[2] <= 1
        THEN IF Len(stack) > 1 THEN StepBack(s, SubSeq(stack, 1, Len(stack) - 1)) ELSE <<stack, FALSE>>
        ELSE LET st1 == [stack EXCEPT ![Len(stack)] = <<top[1], top[2] - 1>>]
                 \* descend along the right-most path
                 Down[n \in 0..Depth0] ==
                     IF n = 0 THEN st1
                     ELSE LET st == Down[n - 1]
                              e == st[Len(st)]
                              pn == PageNode(s, e[1])
                          IN  IF pn.leaf \/ Len(pn.keys) = 0 THEN st
                              ELSE LET child == pn.kids[e[2]]
                                   IN  Append(st, <<child, Max(Len(PageNode(s, child).keys), 1)>>)
                 st2 == Down[Depth0]
                 e2 == st2[Len(st2)]
                 pn2 == PageNode(s, e2[1])
             IN  IF pn2.leaf /\ Len(pn2.keys) > 0 THEN <<st2, TRUE>>
                 ELSE StepBack(s, [st2 EXCEPT ![Len(st2)] = <<e2[1], 1>>])

\* Cursor::seek: [exact, stack, done] (done: the cursor is exhausted)
Seek(s, k) ==
    LET r == Search(s, k)
        st == r.path
    IN  IF ~r.exact /\ Len(st) > 1 /\ Current(r.s, st) = 0 /\ "F2" \notin Pinned
        THEN LET a == Advance(r.s, st)
             IN  IF ~a[2] THEN [exact |-> FALSE, stack |-> a[1], done |-> FALSE]
                 ELSE IF "F14" \in Pinned THEN [exact |-> FALSE, stack |-> a[1], done |-> TRUE]
                 ELSE LET b == StepBack(r.s, st)
                      IN  [exact |-> FALSE, stack |-> b[1], done |-> ~b[2]]
        ELSE [exact |-> r.exact, stack |-> st, done |-> FALSE]

\* what iterating from a seek yields: the current entry, then every next()
SeekList(s, k) ==
    LET r == Seek(s, k)
    IN  IF r.done THEN <<>> ELSE ScanFrom(s, r.stack, <<>>, 4 * NKeys + 8)

(* ---- Range (cursor.rs, impl Iterator for Range) --------------------------- *)
\* bound kinds "I" included, "E" excluded, "U" unbounded
RangeList(s, lk, lo, hk, hi) ==
    LET sk == Seek(s, lo)
        from == IF lk = "U" THEN Scan(s) ELSE SeekList(s, lo)
        \* the first call: seek, then step over the entry before the start (one entry: seek stops at a neighbour)
        start == IF lk = "I" /\ ~sk.exact /\ from # <<>> /\ from[1] < lo THEN Tail(from)
                 ELSE IF lk = "E" /\ from # <<>> /\ from[1] <= lo THEN Tail(from)
                 ELSE from
        inEnd(x) == CASE hk = "E" -> x < hi [] hk = "I" -> x <= hi [] OTHER -> TRUE
        \* iteration ends at the first entry beyond the end bound
        n == IF \E i \in 1..Len(start) : ~inEnd(start[i])
             THEN (CHOOSE i \in 1..Len(start) : ~inEnd(start[i]) /\ \A j \in 1..i - 1 : inEnd(start[j])) - 1
             ELSE Len(start)
    IN  SubSeq(start, 1, n)

(* ---- commit: rebalance -------------------------------------------------- *)
FreePage(s, id) ==
    IF s.nodes[id].pid # 0
    THEN [s EXCEPT !.freed = @ \cup {s.nodes[id].pid}, !.nodes[id].pid = 0,
                   !.refreed = @ \cup (s.freed \cap {s.nodes[id].pid})]
    ELSE s

\* NodeData::merge: append and sort (keys with their kids)
MergeData(k1, c1, k2, c2) ==
    LET ks == k1 \o k2
        cs == c1 \o c2
        n == Len(ks)
        \* rank of element i: elements smaller, ties by position
        rank(i) == Cardinality({j \in 1..n : ks[j] < ks[i] \/ (ks[j] = ks[i] /\ j < i)}) + 1
        at(r) == CHOOSE i \in 1..n : rank(i) = r
    IN  <<[r \in 1..n |-> ks[at(r)]], [r \in 1..n |-> cs[at(r)]]>>

MergeRoot(s, id) ==
    LET n == s.nodes[id]
    IN  IF ~n.leaf /\ Len(n.keys) = 0 /\ "F13" \notin Pinned
        THEN [s EXCEPT !.nodes[id].leaf = TRUE, !.nodes[id].children = <<>>]
        ELSE IF ~n.leaf /\ Len(n.keys) = 1
        THEN LET s1 == [FreePage(s, id) EXCEPT !.nodes[id].deleted = TRUE]
                 child == n.kids[1]
             IN  IF child <= 1 THEN Panic(s1, "debug: cannot have page <= 1")
                 ELSE IF "F1" \in Pinned THEN [s1 EXCEPT !.root = child]
                 ELSE Mat([s1 EXCEPT !.root = child], child)
        ELSE s

MergeNonRoot(s, id) ==
    LET n == s.nodes[id]
    IN  IF n.parent = 0 THEN Panic(s, "non root node must have parent")
        ELSE
        LET pa == n.parent
            par == s.nodes[pa]
        IN  IF par.leaf THEN s
            ELSE IF Len(par.keys) = 1 /\ (Len(n.keys) > 0 \/ "F13" \in Pinned) THEN s
            ELSE IF n.okey = 0 THEN Panic(s, "unwrap of a missing original_key")
            ELSE IF ~Found(par.keys, n.okey) THEN Panic(s, "child branch not found")
            ELSE
            LET index == Pos(par.keys, n.okey) + 1
                doMerge == Len(n.keys) > 0 /\ Len(par.keys) > 1
                sibPage == IF index = 1 THEN par.kids[2] ELSE par.kids[index - 1]
                s1 == IF doMerge THEN Mat([s EXCEPT !.pparent = (sibPage :> par.pid) @@ @], sibPage) ELSE s
            IN  IF s1.panic # "" THEN s1
                ELSE
                LET sib == IF doMerge THEN s1.pnode[sibPage] ELSE 0
                    md == MergeData(s1.nodes[sib].keys, s1.nodes[sib].kids, n.keys, n.kids)
                    right == doMerge /\ index = 1 /\ "F6" \notin Pinned
                    \* the sibling takes the data, (for a right sibling) the entry, and the children
                    s2 == IF ~doMerge THEN s1
                          ELSE IF s1.nodes[sib].leaf # n.leaf THEN Panic(s1, "incompatible data types")
                          ELSE [s1 EXCEPT !.nodes = [i \in DOMAIN s1.nodes |->
                                   IF i = sib THEN [s1.nodes[i] EXCEPT !.keys = md[1], !.kids = md[2],
                                                       !.okey = IF right THEN n.okey ELSE @,
                                                       !.children = @ \o s1.nodes[id].children]
                                   ELSE IF i \in Range(s1.nodes[id].children) THEN [s1.nodes[i] EXCEPT !.parent = sib]
                                   ELSE IF i = id THEN [s1.nodes[i] EXCEPT !.keys = <<>>, !.kids = <<>>,
                                                           !.children = IF doMerge THEN <<>> ELSE @]
                                   ELSE s1.nodes[i]]]
                    s3 == [FreePage(s2, id) EXCEPT !.nodes[id].deleted = TRUE]
                    par3 == s3.nodes[pa]
                    pos == CHOOSE i \in 1..Len(par3.children) + 1 :
                              (i <= Len(par3.children) /\ par3.children[i] = id
                                  /\ \A j \in 1..i - 1 : par3.children[j] # id)
                              \/ (i = Len(par3.children) + 1 /\ id \notin Range(par3.children))
                IN  IF s2.panic # "" THEN s2
                    ELSE [s3 EXCEPT
                        !.nodes[pa].keys = IF right THEN RemoveAt(@, index + 1) ELSE RemoveAt(@, index),
                        !.nodes[pa].kids = IF right THEN RemoveAt([@ EXCEPT ![index] = sibPage], index + 1)
                                           ELSE RemoveAt(@, index),
                        !.nodes[pa].children = IF pos <= Len(@) THEN RemoveAt(@, pos) ELSE @]

\* merge_nodes: the explicit stack of <<visited, node id>> (top = last element)
RECURSIVE MergeLoop(_, _)
MergeLoop(s, stack) ==
    IF stack = <<>> \/ s.panic # "" THEN s
    ELSE LET top == stack[Len(stack)]
             rest == SubSeq(stack, 1, Len(stack) - 1)
             id == top[2]
             n == s.nodes[id]
         IN  IF top[1] \/ n.leaf
             THEN IF ~NeedsMerging(n) THEN MergeLoop(s, rest)
                  ELSE IF n.pid = s.root THEN MergeLoop(MergeRoot(s, id), rest)
                  ELSE MergeLoop(MergeNonRoot(s, id), rest)
             ELSE MergeLoop(s, rest \o <<<<TRUE, id>>>> \o [i \in 1..Len(n.children) |-> <<FALSE, Rev(n.children)[i]>>])

MergeNodes(s) ==
    LET s1 == IF DOMAIN s.pnode = {} THEN Mat(s, s.root) ELSE s
    IN  IF s1.panic # "" THEN s1 ELSE MergeLoop(s1, <<<<FALSE, s1.pnode[s1.root]>>>>)

(* ---- commit: spill ------------------------------------------------------ *)
\* Node::write (allocate = free the old page, take a new one, copy the data)
Write(s, id) ==
    IF s.nodes[id].deleted THEN s
    ELSE LET s1 == FreePage(s, id)
             n == s1.nodes[id]
         IN  [s1 EXCEPT !.nodes[id].spilled = TRUE, !.nodes[id].pid = s1.next, !.next = @ + 1,
                        !.pages = (s1.next :> [leaf |-> n.leaf, keys |-> n.keys, kids |-> n.kids]) @@ @]

\* Node::insert_branch
InsertBranch(s, par, okey, key, page) ==
    LET p == s.nodes[par]
        sk == IF okey # 0 THEN okey ELSE key
    IN  IF p.leaf THEN Panic(s, "CANNOT INSERT BRANCH INTO A LEAF NODE")
        ELSE IF Found(p.keys, sk)
        THEN IF okey = 0 THEN Panic(s, "insert_branch: new sibling's key already in the parent")
             ELSE [s EXCEPT !.nodes[par].keys[Pos(p.keys, sk) + 1] = key,
                            !.nodes[par].kids[Pos(p.keys, sk) + 1] = page]
        ELSE IF okey # 0 THEN Panic(s, "insert_branch: original key not in the parent")
             ELSE [s EXCEPT !.nodes[par].keys = InsertAt(p.keys, Pos(p.keys, sk) + 1, key),
                            !.nodes[par].kids = InsertAt(p.kids, Pos(p.keys, sk) + 1, page)]

\* Node::split : the 0-based split indexes
RECURSIVE SplitIdx(_, _, _, _, _, _)
SplitIdx(i, len, n, cur, count, acc) ==
    IF i > len - 3 THEN acc
    ELSE LET c == count + 1
             E == ElemSize(n, i + 1)
             ns == cur + E
         IN  IF c >= MINKEYS /\ ns > Threshold
             THEN SplitIdx(i + 1, len, n, HEADER + E, 0, Append(acc, i + 1))
             ELSE SplitIdx(i + 1, len, n, ns, c, acc)

\* returns the state (the node keeps the first chunk, new nodes appended) and the new node ids
Split(s, id) ==
    LET n == s.nodes[id]
        len == Len(n.keys)
        idx == IF len <= MINKEYS * 2 \/ Size(n) < PageSize THEN <<>>
               ELSE SplitIdx(0, len, n, HEADER, 0, <<>>)
        cuts == idx \o <<len>>                   \* chunk j (j >= 1) = elements idx[j]+1 .. cuts[j+1]
        chunk(j) == [pid |-> 0, leaf |-> n.leaf,
                     keys |-> SubSeq(n.keys, cuts[j] + 1, cuts[j + 1]),
                     kids |-> SubSeq(n.kids, cuts[j] + 1, cuts[j + 1]),
                     children |-> <<>>, okey |-> n.keys[cuts[j] + 1], parent |-> 0,
                     deleted |-> FALSE, spilled |-> FALSE]
        base == Len(s.nodes)
    IN  IF idx = <<>> THEN [s |-> s, sibs |-> <<>>]
        ELSE [s |-> [s EXCEPT !.nodes = [@ EXCEPT ![id].keys = SubSeq(n.keys, 1, idx[1]),
                                                  ![id].kids = SubSeq(n.kids, 1, idx[1])]
                                        \o [j \in 1..Len(idx) |-> chunk(j)]],
              sibs |-> [j \in 1..Len(idx) |-> base + j]]

WriteAll(s, ids, from) ==
    LET F[i \in 0..Len(ids)] == IF i = 0 THEN s ELSE Write(F[i - 1], ids[i])
    IN  F[Len(ids)]

InsertSibs(s, par, ids, from) ==
    LET F[i \in 0..Len(ids)] ==
            IF i = 0 THEN s
            ELSE IF F[i - 1].panic # "" THEN F[i - 1]
            ELSE LET sb == F[i - 1].nodes[ids[i]]
                 IN  InsertBranch(F[i - 1], par, 0, sb.keys[1], sb.pid)
    IN  F[Len(ids)]

\* sort_by_cached_key(first key of the child)
SortChildren(s, ch) ==
    LET n == Len(ch)
        fk(i) == s.nodes[ch[i]].keys[1]
        rank(i) == Cardinality({j \in 1..n : fk(j) < fk(i) \/ (fk(j) = fk(i) /\ j < i)}) + 1
    IN  [r \in 1..n |-> ch[CHOOSE i \in 1..n : rank(i) = r]]

\* Node::spill(bucket, tx_freelist, parent): returns [s, root] (root = 0 : None)
RECURSIVE SpillNode(_, _, _)
SpillNode(s, id, par) ==
    IF s.panic # "" THEN [s |-> s, root |-> 0]
    ELSE IF s.nodes[id].spilled THEN [s |-> s, root |-> 0]
    ELSE IF \E c \in Range(s.nodes[id].children) : Len(s.nodes[c].keys) = 0
    THEN [s |-> Panic(s, "Cannot get key parts of empty data (sort children)"), root |-> 0]
    ELSE
    LET s1 == [s EXCEPT !.nodes[id].children = SortChildren(s, @)]
        ch == s1.nodes[id].children
        SpillKids[i \in 1..Len(ch) + 1] ==
            IF i = 1 THEN s1 ELSE SpillNode(SpillKids[i - 1], ch[i - 1], id).s
        s2 == SpillKids[Len(ch) + 1]
    IN  IF s2.panic # "" THEN [s |-> s2, root |-> 0]
        ELSE
        LET sp == Split(s2, id)
            s3 == Write(sp.s, id)
            s4 == IF sp.sibs = <<>> THEN s3 ELSE WriteAll(Write(s3, id), sp.sibs, 1)
            n == s4.nodes[id]
        IN  IF par # 0
            THEN IF Len(n.keys) = 0
                 THEN [s |-> Panic(s4, "Cannot get key parts of empty data (Branch::from_node)"), root |-> 0]
                 ELSE [s |-> InsertSibs(InsertBranch(s4, par, n.okey, n.keys[1], n.pid), par, sp.sibs, 1),
                       root |-> 0]
            ELSE IF sp.sibs = <<>> THEN [s |-> s4, root |-> n.pid]
            ELSE LET all == <<id>> \o sp.sibs
                     np == [pid |-> 0, leaf |-> FALSE,
                            keys |-> [j \in 1..Len(all) |-> s4.nodes[all[j]].keys[1]],
                            kids |-> [j \in 1..Len(all) |-> s4.nodes[all[j]].pid],
                            children |-> <<>>, okey |-> s4.nodes[id].keys[1], parent |-> 0,
                            deleted |-> FALSE, spilled |-> FALSE]
                     s5 == [s4 EXCEPT !.nodes = Append(@, np)]
                     r == SpillNode(s5, Len(s5.nodes), 0)
                 IN  IF r.root = 0 /\ r.s.panic = ""
                     THEN [s |-> Panic(r.s, "New parent did not return a new root_page_id"), root |-> 0]
                     ELSE r

\* tx commit for this bucket: rebalance, then spill (nested bucket entries, then the nodes); the new root page.
\* order: the sequence in which the opened nested buckets are written back (a permutation of DOMAIN s.open)
CommitTree(s, order) ==
    IF ~s.dirty THEN s
    ELSE LET s0 == MergeNodes(s)
             s1 == IF s0.panic # "" THEN s0 ELSE PutOpened(s0, order)
         IN  IF s1.panic # "" THEN s1
             ELSE IF s1.root \notin DOMAIN s1.pnode THEN Panic(s1, "root page has no node at spill")
             ELSE LET r == SpillNode(s1, s1.pnode[s1.root], 0)
                  IN  IF r.s.panic # "" THEN r.s
                      ELSE IF r.root = 0 THEN Panic(r.s, "root node did not return a new page_id")
                      ELSE [r.s EXCEPT !.root = r.root]

(* ---- what a committed tree must be -------------------------------------- *)
RECURSIVE Reach(_, _, _)
\* pages reachable from pid, as a sequence (a page may appear twice if shared); fuel against cycles
Reach(pages, pid, fuel) ==
    IF fuel = 0 \/ pid \notin DOMAIN pages THEN <<pid>>
    ELSE IF pages[pid].leaf THEN <<pid>>
    ELSE LET k == pages[pid].kids
             F[i \in 0..Len(k)] == IF i = 0 THEN <<pid>> ELSE F[i - 1] \o Reach(pages, k[i], fuel - 1)
         IN  F[Len(k)]

RECURSIVE Listing(_, _, _)
\* in-order <<key, version>> pairs
Listing(pages, pid, fuel) ==
    IF fuel = 0 \/ pid \notin DOMAIN pages THEN <<>>
    ELSE IF pages[pid].leaf THEN [i \in 1..Len(pages[pid].keys) |-> <<pages[pid].keys[i], pages[pid].kids[i]>>]
    ELSE LET k == pages[pid].kids
             F[i \in 0..Len(k)] == IF i = 0 THEN <<>> ELSE F[i - 1] \o Listing(pages, k[i], fuel - 1)
         IN  F[Len(k)]

\* canonical shape: nested <<keys>> / <<key, shape>> -- what the decoder of the real file is compared with
RECURSIVE Shape(_, _, _)
Shape(pages, pid, fuel) ==
    IF fuel = 0 \/ pid \notin DOMAIN pages THEN [bad |-> pid]
    ELSE IF pages[pid].leaf THEN [l |-> pages[pid].keys]
    ELSE [b |-> [i \in 1..Len(pages[pid].keys) |-> [k |-> pages[pid].keys[i],
                                                      c |-> Shape(pages, pages[pid].kids[i], fuel - 1)]]]

Depth == NKeys + 3
\* every page: sorted; branch: >= 1 entry, entry key = first key of the child's subtree listing, children
\* all leaves or all branches; non-root pages non-empty
RECURSIVE WellFormed(_, _, _, _)
WellFormed(pages, pid, isRoot, fuel) ==
    /\ fuel > 0
    /\ pid \in DOMAIN pages
    /\ LET p == pages[pid]
       IN  /\ IsSorted(p.keys)
           /\ Len(p.kids) = Len(p.keys)
           /\ isRoot \/ Len(p.keys) > 0
           /\ ~p.leaf =>
               /\ Len(p.keys) > 0
               /\ \A i \in 1..Len(p.keys) :
                    /\ WellFormed(pages, p.kids[i], FALSE, fuel - 1)
                    /\ LET sub == Listing(pages, p.kids[i], fuel - 1)
                       IN  /\ sub # <<>>
                           /\ sub[1][1] = p.keys[i]
                           /\ i < Len(p.keys) => sub[Len(sub)][1] < p.keys[i + 1]
               /\ \A i, j \in 1..Len(p.keys) :
                    (p.kids[i] \in DOMAIN pages /\ p.kids[j] \in DOMAIN pages)
                        => pages[p.kids[i]].leaf = pages[p.kids[j]].leaf
=============================================================================
