------------------------------ MODULE Threads ------------------------------
(***************************************************************************)
(* L2 -- reader and writer transactions on different threads (C04, C09).    *)
(*                                                                         *)
(* Each thread runs the code of Tx::new / commit / drop split at the yield  *)
(* hook points of src/tx.rs and src/db.rs: one action per code segment      *)
(* between two consecutive yield points, named after the hook that ends it. *)
(* The five locks of DBInner are explicit:                                  *)
(*   F  file mutex  = the writer lock, held for a write transaction's life  *)
(*   M  map RwLock  (writer-preferring: readers queue behind a waiting      *)
(*                   writer), read-held for a read transaction's life,      *)
(*                   write-held while the file is re-mapped                 *)
(*   D  map-handle mutex, FL free-list mutex, R reader-registry mutex       *)
(*      (short critical sections inside one segment)                        *)
(* Data is abstracted to what the properties need: a snapshot is one page   *)
(* holding a counter; commit t writes a fresh page, frees the page of the   *)
(* snapshot it replaced into pending[t]; release / allocation follow        *)
(* PageRules.                                                               *)
(*                                                                         *)
(* RegisterAtomically selects where a reader chooses its snapshot:          *)
(*   FALSE  the pinned order: header read (tx:meta_read), registration in   *)
(*          the next segment                                                *)
(*   TRUE   the snapshot is (re)read inside the registry critical section   *)
(***************************************************************************)
EXTENDS PageRules

CONSTANTS Readers, Writers,      \* thread ids (disjoint sets of integers)
          Commits,               \* Writers -> number of write transactions the thread runs
          Reads,                 \* number of reads a reader performs while open
          Grows,                 \* set of commit ids (txids) that have to grow the file
          RegisterAtomically,
          MaxPage

Threads == Readers \cup Writers

VARIABLES pc, loc,           \* per thread: program counter, local variables
          F, Mr, Mw, Mwait,  \* locks: F holder (0 none); M readers set, M writer (0 none), waiting writers
          cur,               \* txid of the header visible in the map
          val, root, pgver,  \* txid -> counter; txid -> page; page -> txid that wrote it
          np,                \* high-water mark
          shFree, shPend, reg,
          completed          \* txids of commits that have returned

vars == <<pc, loc, F, Mr, Mw, Mwait, cur, val, root, pgver, np, shFree, shPend, reg, completed>>

NoLoc == [snap |-> -1, txid |-> -1, free |-> {}, pend |-> <<>>, page |-> -1, obs |-> <<>>, began |-> -1,
          left |-> 0, newval |-> -1]

Init ==
    /\ pc = [t \in Threads |-> "h:start"]
    /\ loc = [t \in Threads |-> [NoLoc EXCEPT !.left = IF t \in Writers THEN Commits[t] ELSE 1]]
    /\ F = 0 /\ Mr = {} /\ Mw = 0 /\ Mwait = {}
    /\ cur = 0 /\ val = (0 :> 0) /\ root = (0 :> 2) /\ pgver = (2 :> 0) /\ np = 3
    /\ shFree = {} /\ shPend = <<>> /\ reg = <<>>
    /\ completed = {0}

Set(t, f, v) == [loc EXCEPT ![t][f] = v]
Goto(t, p) == pc' = [pc EXCEPT ![t] = p]

SortedInsert(s, x) ==
    LET k == Cardinality({i \in 1..Len(s) : s[i] <= x}) IN SubSeq(s, 1, k) \o <<x>> \o SubSeq(s, k + 1, Len(s))
RemoveFirst(s, x) ==
    LET idx == {i \in 1..Len(s) : s[i] = x} IN
    IF idx = {} THEN s ELSE LET k == MinOf(idx) IN SubSeq(s, 1, k - 1) \o SubSeq(s, k + 1, Len(s))

(***************************************************************************)
(* reader                                                                  *)
(***************************************************************************)
\* start -> tx:locked : mmap_lock.read()
RLocked(t) ==
    /\ t \in Readers /\ pc[t] = "h:start" /\ loc[t].left > 0
    /\ Mw = 0 /\ Mwait = {}                      \* writer-preferring RwLock
    /\ Mr' = Mr \cup {t}
    /\ loc' = [loc EXCEPT ![t].began = MaxOf(completed), ![t].left = 0]   \* commits completed before it began
    /\ Goto(t, "tx:locked")
    /\ UNCHANGED <<F, Mw, Mwait, cur, val, root, pgver, np, shFree, shPend, reg, completed>>

\* -> tx:fl_cloned : freelist.lock().clone()
RFlCloned(t) ==
    /\ t \in Readers /\ pc[t] = "tx:locked"
    /\ Goto(t, "tx:fl_cloned")
    /\ UNCHANGED <<loc, F, Mr, Mw, Mwait, cur, val, root, pgver, np, shFree, shPend, reg, completed>>

\* -> tx:meta_read : meta()
RMetaRead(t) ==
    /\ t \in Readers /\ pc[t] = "tx:fl_cloned"
    /\ loc' = Set(t, "snap", cur)
    /\ Goto(t, "tx:meta_read")
    /\ UNCHANGED <<F, Mr, Mw, Mwait, cur, val, root, pgver, np, shFree, shPend, reg, completed>>

\* -> tx:reg_done : open_ro_txs.push; sort   (re-reading the header first in the repaired order)
RRegistered(t) ==
    /\ t \in Readers /\ pc[t] = "tx:meta_read"
    /\ LET s == IF RegisterAtomically THEN cur ELSE loc[t].snap IN
       /\ reg' = SortedInsert(reg, s)
       /\ loc' = Set(t, "snap", s)
    /\ Goto(t, "tx:reg_done")
    /\ UNCHANGED <<F, Mr, Mw, Mwait, cur, val, root, pgver, np, shFree, shPend, completed>>

\* -> tx:ready
RReady(t) ==
    /\ t \in Readers /\ pc[t] = "tx:reg_done"
    /\ loc' = Set(t, "left", Reads)
    /\ Goto(t, "tx:ready")
    /\ UNCHANGED <<F, Mr, Mw, Mwait, cur, val, root, pgver, np, shFree, shPend, reg, completed>>

\* a read of the snapshot: what is in the snapshot's page right now
RRead(t) ==
    /\ t \in Readers /\ pc[t] \in {"tx:ready", "h:read"} /\ loc[t].left > 0
    /\ LET p == root[loc[t].snap] IN
       loc' = [loc EXCEPT ![t].obs = Append(@, IF pgver[p] = loc[t].snap THEN val[loc[t].snap] ELSE -1),
                          ![t].left = @ - 1]
    /\ Goto(t, "h:read")
    /\ UNCHANGED <<F, Mr, Mw, Mwait, cur, val, root, pgver, np, shFree, shPend, reg, completed>>

\* -> drop:enter, -> drop:done : deregister
RDropEnter(t) ==
    /\ t \in Readers /\ pc[t] \in {"tx:ready", "h:read"} /\ loc[t].left = 0
    /\ Goto(t, "drop:enter")
    /\ UNCHANGED <<loc, F, Mr, Mw, Mwait, cur, val, root, pgver, np, shFree, shPend, reg, completed>>

RDropDone(t) ==
    /\ t \in Readers /\ pc[t] = "drop:enter"
    /\ reg' = RemoveFirst(reg, loc[t].snap)
    /\ Goto(t, "drop:done")
    /\ UNCHANGED <<loc, F, Mr, Mw, Mwait, cur, val, root, pgver, np, shFree, shPend, completed>>

\* -> done : the read guard is dropped
RDone(t) ==
    /\ t \in Readers /\ pc[t] = "drop:done"
    /\ Mr' = Mr \ {t}
    /\ Goto(t, "h:tx_done")
    /\ UNCHANGED <<loc, F, Mw, Mwait, cur, val, root, pgver, np, shFree, shPend, reg, completed>>

(***************************************************************************)
(* writer                                                                  *)
(***************************************************************************)
WLocked(t) ==
    /\ t \in Writers /\ pc[t] = "h:start" /\ loc[t].left > 0
    /\ F = 0 /\ F' = t
    /\ Goto(t, "tx:locked")
    /\ UNCHANGED <<loc, Mr, Mw, Mwait, cur, val, root, pgver, np, shFree, shPend, reg, completed>>

WFlCloned(t) ==
    /\ t \in Writers /\ pc[t] = "tx:locked"
    /\ loc' = [loc EXCEPT ![t].free = shFree, ![t].pend = shPend]
    /\ Goto(t, "tx:fl_cloned")
    /\ UNCHANGED <<F, Mr, Mw, Mwait, cur, val, root, pgver, np, shFree, shPend, reg, completed>>

WMetaRead(t) ==
    /\ t \in Writers /\ pc[t] = "tx:fl_cloned"
    /\ loc' = [loc EXCEPT ![t].snap = cur, ![t].txid = cur + 1]
    /\ Goto(t, "tx:meta_read")
    /\ UNCHANGED <<F, Mr, Mw, Mwait, cur, val, root, pgver, np, shFree, shPend, reg, completed>>

\* release(oldest registered reader, or own id)
WReleased(t) ==
    /\ t \in Writers /\ pc[t] = "tx:meta_read"
    /\ LET b == IF reg # <<>> THEN reg[1] ELSE loc[t].txid
           rel == Released(loc[t].pend, b)
       IN loc' = [loc EXCEPT ![t].free = @ \cup UNION {loc[t].pend[x] : x \in rel},
                             ![t].pend = [x \in DOMAIN loc[t].pend \ rel |-> loc[t].pend[x]]]
    /\ Goto(t, "tx:reg_done")
    /\ UNCHANGED <<F, Mr, Mw, Mwait, cur, val, root, pgver, np, shFree, shPend, reg, completed>>

\* -> tx:ready, then the transaction body: read the counter of the base snapshot
WReady(t) ==
    /\ t \in Writers /\ pc[t] = "tx:reg_done"
    /\ loc' = Set(t, "newval", val[loc[t].snap] + 1)
    /\ Goto(t, "tx:ready")
    /\ UNCHANGED <<F, Mr, Mw, Mwait, cur, val, root, pgver, np, shFree, shPend, reg, completed>>

\* commit: rebalance + spill (allocate the new page, free the old one), free-list realloc
WSpilled(t) ==
    /\ t \in Writers /\ pc[t] = "tx:ready"
    /\ \E p \in 2..MaxPage :
          /\ AllocOK(p, 1, loc[t].free, np)
          /\ loc' = [loc EXCEPT ![t].page = p, ![t].free = @ \ {p},
                                ![t].pend = AddPend(@, loc[t].txid, {root[loc[t].snap]})]
          /\ np' = IF p = np THEN np + 1 ELSE np
    /\ Goto(t, "commit:spilled")
    /\ UNCHANGED <<F, Mr, Mw, Mwait, cur, val, root, pgver, shFree, shPend, reg, completed>>

\* the file is long enough: nothing to do
WSized(t) ==
    /\ t \in Writers /\ pc[t] = "commit:spilled" /\ loc[t].txid \notin Grows
    /\ Goto(t, "commit:sized")
    /\ UNCHANGED <<loc, F, Mr, Mw, Mwait, cur, val, root, pgver, np, shFree, shPend, reg, completed>>

\* resize: fallocate ...
WGrowAlloc(t) ==
    /\ t \in Writers /\ pc[t] = "commit:spilled" /\ loc[t].txid \in Grows
    /\ Goto(t, "resize:allocated")
    /\ UNCHANGED <<loc, F, Mr, Mw, Mwait, cur, val, root, pgver, np, shFree, shPend, reg, completed>>

\* ... then mmap_lock.write(): the attempt alone makes later readers queue behind it
WGrowAttempt(t) ==
    /\ t \in Writers /\ pc[t] = "resize:allocated"
    /\ Mwait' = Mwait \cup {t}
    /\ Goto(t, "in:M.write")
    /\ UNCHANGED <<loc, F, Mr, Mw, cur, val, root, pgver, np, shFree, shPend, reg, completed>>

WGrowLocked(t) ==
    /\ t \in Writers /\ pc[t] = "in:M.write"
    /\ Mr = {} /\ Mw = 0
    /\ Mw' = t /\ Mwait' = Mwait \ {t}
    /\ Goto(t, "resize:have_map_lock")
    /\ UNCHANGED <<loc, F, Mr, cur, val, root, pgver, np, shFree, shPend, reg, completed>>

\* remap under D, release D and M
WRemapped(t) ==
    /\ t \in Writers /\ pc[t] = "resize:have_map_lock"
    /\ Mw' = 0
    /\ Goto(t, "commit:sized")
    /\ UNCHANGED <<loc, F, Mr, Mwait, cur, val, root, pgver, np, shFree, shPend, reg, completed>>

\* data pages written (and synced)
WDataWritten(t) ==
    /\ t \in Writers /\ pc[t] = "commit:sized"
    /\ pgver' = (loc[t].page :> loc[t].txid) @@ pgver
    /\ Goto(t, "commit:data_written")
    /\ UNCHANGED <<loc, F, Mr, Mw, Mwait, cur, val, root, np, shFree, shPend, reg, completed>>

\* header written: visible to every later header read at once
WMetaWritten(t) ==
    /\ t \in Writers /\ pc[t] = "commit:data_written"
    /\ cur' = loc[t].txid
    /\ val' = (loc[t].txid :> loc[t].newval) @@ val
    /\ root' = (loc[t].txid :> loc[t].page) @@ root
    /\ Goto(t, "commit:meta_written")
    /\ UNCHANGED <<loc, F, Mr, Mw, Mwait, pgver, np, shFree, shPend, reg, completed>>

\* sync, then publication of the free list
WPublished(t) ==
    /\ t \in Writers /\ pc[t] = "commit:meta_written"
    /\ shFree' = loc[t].free /\ shPend' = loc[t].pend
    /\ Goto(t, "commit:done")
    /\ UNCHANGED <<loc, F, Mr, Mw, Mwait, cur, val, root, pgver, np, reg, completed>>

\* commit returns; the transaction is dropped; the writer lock is released
WDone(t) ==
    /\ t \in Writers /\ pc[t] = "commit:done"
    /\ F' = 0
    /\ completed' = completed \cup {loc[t].txid}
    /\ loc' = [loc EXCEPT ![t] = [NoLoc EXCEPT !.left = loc[t].left - 1]]
    /\ Goto(t, "h:tx_done")
    /\ UNCHANGED <<Mr, Mw, Mwait, cur, val, root, pgver, np, shFree, shPend, reg>>

\* back to the top of the thread's loop, or finished
Again(t) ==
    /\ pc[t] = "h:tx_done"
    /\ IF t \in Writers /\ loc[t].left > 0 THEN Goto(t, "h:start") ELSE Goto(t, "done")
    /\ UNCHANGED <<loc, F, Mr, Mw, Mwait, cur, val, root, pgver, np, shFree, shPend, reg, completed>>

Step(t) ==
    \/ RLocked(t) \/ RFlCloned(t) \/ RMetaRead(t) \/ RRegistered(t) \/ RReady(t) \/ RRead(t)
    \/ RDropEnter(t) \/ RDropDone(t) \/ RDone(t)
    \/ WLocked(t) \/ WFlCloned(t) \/ WMetaRead(t) \/ WReleased(t) \/ WReady(t) \/ WSpilled(t)
    \/ WSized(t) \/ WGrowAlloc(t) \/ WGrowAttempt(t) \/ WGrowLocked(t) \/ WRemapped(t) \/ Again(t) \/ WDataWritten(t) \/ WMetaWritten(t)
    \/ WPublished(t) \/ WDone(t)

AllDone == \A t \in Threads : pc[t] = "done"
Next == (\E t \in Threads : Step(t)) \/ (AllDone /\ UNCHANGED vars)

Spec == Init /\ [][Next]_vars
FairSpec == Spec /\ \A t \in Threads : WF_vars(Step(t))

(***************************************************************************)
(* Properties                                                              *)
(***************************************************************************)
HasSnap(t) == t \in Readers /\ pc[t] \in {"tx:reg_done", "tx:ready", "h:read", "drop:enter"}

\* C04: the page of a registered reader's snapshot still holds that snapshot
ReaderSafe == \A t \in Readers : HasSnap(t) => pgver[root[loc[t].snap]] = loc[t].snap
\* ... equivalently, every value it has read is its snapshot's value
ReadsStable == \A t \in Readers : \A i \in 1..Len(loc[t].obs) : loc[t].obs[i] = val[loc[t].snap]
\* C04: at least as new as every commit that completed before the reader began
Freshness == \A t \in Readers : HasSnap(t) => loc[t].snap >= loc[t].began

\* C09
InWriteTx(t) == t \in Writers /\ pc[t] \notin {"h:start", "h:tx_done", "done"}
OneWriter == Cardinality({t \in Writers : InWriteTx(t)}) <= 1
NoLostUpdate == val[cur] = cur                \* every commit incremented the counter exactly once
FinalCount == AllDone => cur = Cardinality(completed) - 1
\* a reader is not blocked by an open, uncommitted writer (only by a re-map in progress)
ReaderNotBlockedByWriter ==
    (Mw = 0 /\ Mwait = {}) =>
        \A t \in Readers : (pc[t] = "h:start" /\ loc[t].left > 0) => ENABLED RLocked(t)
Progress == <>AllDone

TypeOK == /\ F \in Writers \cup {0}
          /\ Mw \in Writers \cup {0}
          /\ Mw # 0 => Mr = {}
=============================================================================
