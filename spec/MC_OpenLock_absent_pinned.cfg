SPECIFICATION Spec
CONSTANTS
  Procs = {1, 2, 3}
  FileExists = FALSE
  LockFirst = FALSE
INVARIANT Exclusive
INVARIANT SeesAll
INVARIANT NoFailure
PROPERTY NothingLost
