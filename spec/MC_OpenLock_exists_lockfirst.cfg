SPECIFICATION Spec
CONSTANTS
  Procs = {1, 2, 3}
  FileExists = TRUE
  LockFirst = TRUE
INVARIANT Exclusive
INVARIANT SeesAll
INVARIANT NoFailure
PROPERTY NothingLost
