SPECIFICATION Spec
CONSTANTS
  MaxPage = 8
  MaxTx = 3
  MaxReaders = 0
  MaxEdits = 1
  SyncBeforeMeta = FALSE
  PublishOnError = FALSE
  Crashes = {"kill", "power"}
  Faults = FALSE
  MaxFaults = 1
  Damages = FALSE
INVARIANT TypeOK
INVARIANT ReaderPinned
INVARIANT ReaderIntact
INVARIANT AfterCrash
INVARIANT AllImagesRecoverable
INVARIANT FallbackIntact
INVARIANT Accounting
INVARIANT FLConsistent
INVARIANT WriterSane
CHECK_DEADLOCK FALSE
