----------------------------- MODULE Gen_Threads -----------------------------
(***************************************************************************)
(* Schedule generator for C04 / C09: every behaviour of Threads with at     *)
(* most MaxPre preemptions (a switch away from a thread that could still    *)
(* run), printed as the sequence of <<thread, yield point reached>>.  The   *)
(* harness forces each schedule on real threads parked at the same yield    *)
(* points.                                                                  *)
(***************************************************************************)
EXTENDS Threads, Json

CONSTANTS MaxPre,
          PreemptAt     \* yield points at which a runnable thread may be preempted ({} = anywhere)

VARIABLES sched, last, pre
gvars == <<vars, sched, last, pre>>

GInit == Init /\ sched = <<>> /\ last = 0 /\ pre = 0

GStep(t) ==
    /\ Step(t)
    /\ LET sw == last # 0 /\ last # t /\ ENABLED Step(last)
           p == IF sw THEN pre + 1 ELSE pre IN
       /\ p <= MaxPre
       /\ sw => (PreemptAt = {} \/ pc[last] \in PreemptAt)
       /\ pre' = p
    /\ last' = t
    /\ sched' = Append(sched, <<t, pc'[t]>>)

Emit ==
    /\ AllDone /\ last # -1
    /\ PrintT(ToJson([sched |-> sched, pre |-> pre]))
    /\ last' = -1 /\ sched' = <<>> /\ pre' = 0
    /\ UNCHANGED vars

GNext == (\E t \in Threads : GStep(t)) \/ Emit
GSpec == GInit /\ [][GNext]_gvars
=============================================================================
