SPECIFICATION Spec
CONSTANTS
  MaxPage = 8
  MaxTx = 2
  MaxReaders = 1
  MaxEdits = 1
  SyncBeforeMeta = TRUE
  PublishOnError = TRUE
  Crashes = {"kill"}
  Faults = TRUE
  MaxFaults = 2
  Damages = FALSE
INVARIANT TypeOK
INVARIANT ReaderPinned
INVARIANT ReaderIntact
INVARIANT AfterCrash
INVARIANT AllImagesRecoverable
INVARIANT FallbackIntact
INVARIANT Accounting
INVARIANT FLConsistent
INVARIANT WriterSane
CHECK_DEADLOCK FALSE
