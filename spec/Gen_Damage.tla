----------------------------- MODULE Gen_Damage -----------------------------
(***************************************************************************)
(* Header-damage generator (C12).  It walks a recorded execution and, at    *)
(* every quiescent point PageStore!Damage is enabled in (after open and     *)
(* after every acknowledged commit, no transaction open), emits one recipe  *)
(* per header slot: the image is everything written so far, slot s is       *)
(* damaged, and PageStore!Recover must then choose the other slot, i.e. the *)
(* recovered state is the commit recorded by the other header.  The harness *)
(* concretises "damaged" (every byte offset x masks, zeroing, overwrites).  *)
(***************************************************************************)
EXTENDS Integers, Sequences, FiniteSets, TLC, Json, IOUtils

Rec == ndJsonDeserialize(IOEnv.TRACE)

VARIABLES l, h, nw, tx, opentx, started
\* tx: slot -> id of the commit its header records (-1 unknown)
dvars == <<l, h, nw, tx, opentx, started>>

DInit == l = 1 /\ h = -1 /\ nw = 0 /\ tx = [s \in {0, 1} |-> -1] /\ opentx = 0 /\ started = FALSE

Ev == Rec[l]
Newest == IF tx[0] > tx[1] THEN 0 ELSE 1

EmitBoth ==
    \A s \in {0, 1} :
        PrintT(ToJson([h |-> h, upto |-> nw, slot |-> s, newest |-> Newest,
                       damaged_commit |-> tx[s], expect |-> tx[1 - s]]))

Step ==
    /\ l <= Len(Rec) /\ l' = l + 1
    /\ CASE Ev.ev = "reset" ->
              h' = Ev.h /\ nw' = 0 /\ tx' = [s \in {0, 1} |-> -1] /\ opentx' = 0 /\ started' = FALSE
         [] Ev.ev = "write" ->
              /\ nw' = Ev.wi + 1
              /\ tx' = IF Ev.kind = "meta" /\ Ev.meta.hash_ok THEN [tx EXCEPT ![Ev.page] = Ev.meta.txid] ELSE tx
              /\ UNCHANGED <<h, opentx, started>>
         [] Ev.ev = "opened" ->
              /\ started' = TRUE /\ (IF Ev.res = <<"ok">> THEN EmitBoth ELSE TRUE)
              /\ UNCHANGED <<h, nw, tx, opentx>>
         [] Ev.ev = "begin" -> opentx' = opentx + (IF Ev.res = <<"ok">> THEN 1 ELSE 0) /\ UNCHANGED <<h, nw, tx, started>>
         [] Ev.ev = "drop" -> opentx' = opentx - 1 /\ UNCHANGED <<h, nw, tx, started>>
         [] Ev.ev = "commit" ->
              /\ opentx' = opentx - 1
              /\ IF Ev.res = <<"ok">> /\ opentx = 1 /\ started THEN EmitBoth ELSE TRUE
              /\ UNCHANGED <<h, nw, tx, started>>
         [] OTHER -> UNCHANGED <<h, nw, tx, opentx, started>>

DSpec == DInit /\ [][Step]_dvars
=============================================================================
