SPECIFICATION Spec
CONSTANTS
  MaxPage = 7
  MaxTx = 2
  MaxReaders = 0
  MaxEdits = 1
  SyncBeforeMeta = TRUE
  PublishOnError = FALSE
  Crashes = {}
  Faults = TRUE
  MaxFaults = 2
  Damages = FALSE
INVARIANT TypeOK
INVARIANT ReaderPinned
INVARIANT ReaderIntact
INVARIANT AfterCrash
INVARIANT AllImagesRecoverable
INVARIANT FallbackIntact
INVARIANT Accounting
INVARIANT FLConsistent
INVARIANT WriterSane
CHECK_DEADLOCK FALSE
