---------------------------- MODULE Gen_OpenLock ----------------------------
(***************************************************************************)
(* Ordering generator for C13: every complete behaviour of OpenLock with at *)
(* most MaxPre preemptions, printed as the sequence of <<process, hook      *)
(* point reached>>.  The harness forces each ordering on real processes     *)
(* gated at the same hook points.                                           *)
(***************************************************************************)
EXTENDS OpenLock, Json

CONSTANT MaxPre
VARIABLES sched, last, pre
gvars == <<vars, sched, last, pre>>

GInit == Init /\ sched = <<>> /\ last = 0 /\ pre = 0

GStep(p) ==
    /\ Step(p)
    /\ LET q == IF last # 0 /\ last # p /\ ENABLED Step(last) THEN pre + 1 ELSE pre IN
       /\ q <= MaxPre /\ pre' = q
    /\ last' = p
    /\ sched' = Append(sched, <<p, pc'[p]>>)

Emit ==
    /\ AllDone /\ last # -1
    /\ PrintT(ToJson([sched |-> sched, pre |-> pre, result |-> result]))
    /\ last' = -1 /\ sched' = <<>> /\ pre' = 0
    /\ UNCHANGED vars

GNext == (\E p \in Procs : GStep(p)) \/ Emit
GSpec == GInit /\ [][GNext]_gvars
=============================================================================
