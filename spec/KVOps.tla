------------------------------- MODULE KVOps -------------------------------
(***************************************************************************)
(* L0 -- the logical behaviour of jammdb: a nested ordered map with         *)
(* transactions.  This is the reference semantics every observation of the *)
(* real code is compared against (C01, C06, C07, C08, C15, C16 and the     *)
(* oracle for the contents seen by every other layer).                     *)
(*                                                                         *)
(* Keys are integers whose order is the byte order of the concrete keys    *)
(* (the harness supplies the table and Trace_KV checks the isomorphism).   *)
(* A Tree maps a Path (sequence of keys) to an entry:                      *)
(*    [k |-> "v", x |-> value id]      key/value pair                      *)
(*    [k |-> "b", x |-> counter]       bucket with its insertion counter   *)
(* <<>> is the root bucket.  Every call of the public API is the operator  *)
(* Do(tree, writable, op); it yields the SET of allowed results and the    *)
(* tree afterwards.  A call that yields an error leaves the tree unchanged *)
(* (C06).  Seek on an absent key is deliberately non-deterministic (the    *)
(* property says "an immediate neighbour").                                *)
(***************************************************************************)
EXTENDS Integers, Sequences, FiniteSets, TLC, SequencesExt

RootEntry == [k |-> "b", x |-> 0]
EmptyTree == (<<>> :> RootEntry)

Parent(p) == SubSeq(p, 1, Len(p) - 1)
IsBucket(tree, p) == p \in DOMAIN tree /\ tree[p].k = "b"
IsKV(tree, p) == p \in DOMAIN tree /\ tree[p].k = "v"
HasPrefix(q, p) == Len(p) <= Len(q) /\ SubSeq(q, 1, Len(p)) = p

TreeOK(tree) ==
    /\ IsBucket(tree, <<>>)
    /\ \A p \in DOMAIN tree : p # <<>> => IsBucket(tree, Parent(p))

MinOf(S) == CHOOSE x \in S : \A y \in S : x <= y
MaxOf(S) == CHOOSE x \in S : \A y \in S : x >= y

\* navigation: Tx::get_bucket / Bucket::get_bucket along the path
NavErr(tree, path) ==
    LET bad == {i \in 1..Len(path) : ~IsBucket(tree, SubSeq(path, 1, i))}
    IN  IF bad = {} THEN ""
        ELSE IF SubSeq(path, 1, MinOf(bad)) \in DOMAIN tree
             THEN "IncompatibleValue" ELSE "BucketMissing"

ChildKeys(tree, p) ==
    {q[Len(q)] : q \in {r \in DOMAIN tree : Len(r) = Len(p) + 1 /\ HasPrefix(r, p)}}

Ent(tree, p, k) ==
    LET e == tree[Append(p, k)] IN <<k, e.k, IF e.k = "v" THEN e.x ELSE 0>>

\* the cursor listing of bucket p: ascending key order, each entry once
Listing(tree, p) ==
    LET ks == SetToSortSeq(ChildKeys(tree, p), LAMBDA a, b : a < b)
    IN  [i \in 1..Len(ks) |-> Ent(tree, p, ks[i])]

FilterKind(lst, kind) == SelectSeq(lst, LAMBDA e : e[2] = kind)

\* bounds: kind \in {"I","E","U"} (Included / Excluded / Unbounded)
LoOK(lk, lo, key) == CASE lk = "I" -> lo <= key [] lk = "E" -> lo < key [] OTHER -> TRUE
HiOK(hk, hi, key) == CASE hk = "I" -> key <= hi [] hk = "E" -> key < hi [] OTHER -> TRUE
RangeOf(lst, lk, lo, hk, hi) ==
    SelectSeq(lst, LAMBDA e : LoOK(lk, lo, e[1]) /\ HiOK(hk, hi, e[1]))

Err(e)  == <<"err", e>>
Same(tree, r) == [res |-> {r}, tree |-> tree]

BumpCtr(tree, p) == [tree EXCEPT ![p].x = @ + 1]
RemoveSubtree(tree, q) ==
    LET keep == {r \in DOMAIN tree : ~HasPrefix(r, q)} IN [r \in keep |-> tree[r]]

\* results of seek(k) on a bucket whose listing is lst:
\* <<"seek", exists, cur, drain>> where cur is <<>> or <<entry>>
SeekResultsL(lst, k) ==
    LET n   == Len(lst)
        at(i) == <<"seek", lst[i][1] = k, <<lst[i]>>, SubSeq(lst, i, n)>>
        idx == {i \in 1..n : lst[i][1] = k}
        below == {i \in 1..n : lst[i][1] < k}
        above == {i \in 1..n : lst[i][1] > k}
    IN  IF n = 0 THEN {<<"seek", FALSE, <<>>, <<>>>>}
        ELSE IF idx # {} THEN {at(MinOf(idx))}
        ELSE {at(MaxOf(below)) : x \in IF below = {} THEN {} ELSE {1}}
             \cup {at(MinOf(above)) : x \in IF above = {} THEN {} ELSE {1}}
SeekResults(tree, p, k) == SeekResultsL(Listing(tree, p), k)

\* every call that only reads the listing of its bucket, as a function of that listing
ListReads == {"scan", "buckets", "kvpairs", "range", "rangeb", "rangekv", "seek", "reseek", "again"}
ReadRes(lst, o) ==
    CASE o.c = "scan"    -> {<<"list", lst>>}
      [] o.c = "again"   -> {<<"list", lst>>}   \* drained, then next() three more times
      [] o.c = "buckets" -> {<<"list", FilterKind(lst, "b")>>}
      [] o.c = "kvpairs" -> {<<"list", FilterKind(lst, "v")>>}
      [] o.c = "range"   -> {<<"list", RangeOf(lst, o.lk, o.lo, o.hk, o.hi)>>}
      [] o.c = "rangeb"  -> {<<"list", FilterKind(RangeOf(lst, o.lk, o.lo, o.hk, o.hi), "b")>>}
      [] o.c = "rangekv" -> {<<"list", FilterKind(RangeOf(lst, o.lk, o.lo, o.hk, o.hi), "v")>>}
      [] o.c = "seek"    -> SeekResultsL(lst, o.k)
      [] o.c = "reseek"  -> SeekResultsL(lst, o.k)  \* same cursor: seek(lo), hi x next(), seek(k)

(***************************************************************************)
(* op: [c, p, k, v, lk, lo, hk, hi]                                         *)
(*  c  call name; p path of the bucket the call is made on; k key;          *)
(*  v value id; (lk, lo, hk, hi) range bounds.                               *)
(***************************************************************************)
Mutators == {"put", "del", "mkb", "gocb", "delb", "stale"}
\* "stale": the documented misuse.  A handle to bucket p.k is obtained, the bucket is deleted through
\* its parent, and then call o.v (an index into StaleCalls) is made on the stale handle: the
\* ONLY place where a panic is the specified result; the deletion itself takes effect.
StaleCalls == <<"put", "get", "del", "cursor", "nextint", "getb", "mkb", "delb">>
RootCalls == {"getb", "mkb", "gocb", "delb", "buckets"}   \* what Tx itself offers

Do(tree, w, o) ==
    LET p == o.p
        q == Append(o.p, o.k)
        nav == NavErr(tree, p)
    IN
    IF Len(p) = 0 /\ o.c \notin RootCalls THEN Same(tree, <<"unsupported">>)
    \* Tx::{create,get_or_create,delete}_bucket test writability before anything else;
    \* on a nested bucket the path is resolved first (get_bucket works read-only)
    ELSE IF Len(p) = 0 /\ o.c \in Mutators /\ ~w THEN Same(tree, Err("ReadOnlyTx"))
    ELSE IF nav # "" THEN Same(tree, Err(nav))
    ELSE IF o.c \in Mutators /\ ~w THEN Same(tree, Err("ReadOnlyTx"))
    ELSE CASE o.c = "put" ->
                IF IsBucket(tree, q) THEN Same(tree, Err("IncompatibleValue"))
                ELSE IF IsKV(tree, q)
                     THEN [res |-> {<<"kv", o.k, tree[q].x>>},
                           tree |-> [tree EXCEPT ![q].x = o.v]]
                     ELSE [res |-> {<<"none">>},
                           tree |-> BumpCtr((q :> [k |-> "v", x |-> o.v]) @@ tree, p)]
         [] o.c = "get" ->
                IF IsKV(tree, q) THEN Same(tree, <<"kv", o.k, tree[q].x>>)
                ELSE IF IsBucket(tree, q) THEN Same(tree, <<"bk", o.k>>)
                ELSE Same(tree, <<"none">>)
         [] o.c = "getkv" ->
                IF IsKV(tree, q) THEN Same(tree, <<"kv", o.k, tree[q].x>>)
                ELSE Same(tree, <<"none">>)
         [] o.c = "del" ->
                IF IsBucket(tree, q) THEN Same(tree, Err("IncompatibleValue"))
                ELSE IF IsKV(tree, q)
                     THEN [res |-> {<<"kv", o.k, tree[q].x>>},
                           tree |-> [r \in DOMAIN tree \ {q} |-> tree[r]]]
                     ELSE Same(tree, Err("KeyValueMissing"))
         [] o.c = "getb" ->
                IF IsBucket(tree, q) THEN Same(tree, <<"ok">>)
                ELSE IF IsKV(tree, q) THEN Same(tree, Err("IncompatibleValue"))
                ELSE Same(tree, Err("BucketMissing"))
         [] o.c = "mkb" ->
                IF IsBucket(tree, q) THEN Same(tree, Err("BucketExists"))
                ELSE IF IsKV(tree, q) THEN Same(tree, Err("IncompatibleValue"))
                ELSE [res |-> {<<"ok">>},
                      tree |-> BumpCtr((q :> [k |-> "b", x |-> 0]) @@ tree, p)]
         [] o.c = "gocb" ->
                IF IsBucket(tree, q) THEN Same(tree, <<"ok">>)
                ELSE IF IsKV(tree, q) THEN Same(tree, Err("IncompatibleValue"))
                ELSE [res |-> {<<"ok">>},
                      tree |-> BumpCtr((q :> [k |-> "b", x |-> 0]) @@ tree, p)]
         [] o.c = "delb" ->
                IF IsBucket(tree, q)
                THEN [res |-> {<<"ok">>}, tree |-> RemoveSubtree(tree, q)]
                ELSE IF IsKV(tree, q) THEN Same(tree, Err("IncompatibleValue"))
                ELSE Same(tree, Err("BucketMissing"))
         [] o.c = "stale" ->
                IF IsBucket(tree, q)
                THEN [res |-> {<<"panic">>}, tree |-> RemoveSubtree(tree, q)]
                ELSE IF IsKV(tree, q) THEN Same(tree, Err("IncompatibleValue"))
                ELSE Same(tree, Err("BucketMissing"))
         [] o.c = "nextint" -> Same(tree, <<"int", tree[p].x>>)
         [] o.c \in ListReads -> [res |-> ReadRes(Listing(tree, p), o), tree |-> tree]
         [] OTHER -> Same(tree, <<"unsupported">>)
=============================================================================
