SPECIFICATION Spec
CONSTANTS
  MaxPage = 10
  MaxTx = 4
  MaxReaders = 3
  MaxEdits = 2
  SyncBeforeMeta = TRUE
  PublishOnError = TRUE
  Crashes = {}
  Faults = FALSE
  MaxFaults = 1
  Damages = FALSE
INVARIANT TypeOK
INVARIANT ReaderPinned
INVARIANT ReaderIntact
INVARIANT AfterCrash
INVARIANT AllImagesRecoverable
INVARIANT FallbackIntact
INVARIANT Accounting
INVARIANT FLConsistent
INVARIANT WriterSane
CHECK_DEADLOCK FALSE
