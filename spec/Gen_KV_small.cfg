SPECIFICATION GSpec
CHECK_DEADLOCK FALSE
CONSTANTS
  NKeys = 6
  NVals = 4
  Active = <<1, 2, 4>>
  Fillers = {0, 3, 5}
  Path = <<0>>
  PreKinds = {"absent", "kv"}
  Acts = {"keep", "put", "del"}
  Ends = {"commit", "drop", "reopen"}
  ReadBack = FALSE
