---------------------------- MODULE OpenLock_Ind ----------------------------
(***************************************************************************)
(* Unbounded-depth safety of OpenLock.tla by an inductive invariant,        *)
(* discharged by Apalache (TLC explores the reachable states of the same    *)
(* module; this shows C13's Exclusive for every state satisfying IndInv,    *)
(* reachable or not, for 3 processes and both values of FileExists):        *)
(*     Init => IndInv          IndInv /\ Next => IndInv'                    *)
(*     IndInv => Exclusive                                                  *)
(*   apalache-mc check --cinit=ConstInit --inv=IndInv --length=0 OpenLock_Ind.tla        *)
(*   apalache-mc check --cinit=ConstInit --init=IndInit --inv=IndInv --length=1 ...       *)
(*   apalache-mc check --cinit=ConstInit --init=IndInit --inv=Exclusive --length=0 ...    *)
(***************************************************************************)
EXTENDS OpenLock, Apalache

ConstInit == Procs = {1, 2, 3} /\ FileExists \in BOOLEAN /\ LockFirst \in BOOLEAN

PCs == {"start", "open:enter", "open:existing", "init:enter", "init:created", "init:allocated", "init:synced",
        "open:before_lock", "open:locked", "open:done", "in-db", "done"}
Results == {"", "ok", "AlreadyExists", "NotFound", "EmptyFile", "NoValidHeader"}
Inside == {"open:locked", "open:done", "in-db"}

\* @type: (Seq(Int)) => Bool;
SeqOK(q) == \A i \in DOMAIN q : q[i] \in Procs

TypeInv ==
    /\ pc \in [Procs -> PCs]
    /\ exists \in BOOLEAN /\ inited \in BOOLEAN /\ len \in {0, 1}
    /\ holder \in Procs \cup {0}
    /\ result \in [Procs -> Results]
    /\ SeqOK(markers)
    /\ DOMAIN seen = Procs /\ \A p \in Procs : SeqOK(seen[p])
    /\ DOMAIN closedBefore = Procs /\ \A p \in Procs : SeqOK(closedBefore[p])

\* the lock discipline: a process is past lock_exclusive() and not yet closed exactly if it is the holder
HolderInv == \A p \in Procs : (pc[p] \in Inside) <=> (holder = p)

IndInv == TypeInv /\ HolderInv

\* an arbitrary state satisfying the invariant (sequences of up to 3 elements: the lock discipline does not read them)
IndInit ==
    /\ pc = Gen(3) /\ result = Gen(3) /\ seen = Gen(3) /\ closedBefore = Gen(3) /\ markers = Gen(3)
    /\ exists \in BOOLEAN /\ inited \in BOOLEAN /\ len \in {0, 1} /\ holder \in 0..3
    /\ IndInv
=============================================================================
