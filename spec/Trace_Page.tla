----------------------------- MODULE Trace_Page -----------------------------
(***************************************************************************)
(* Trace validation of the page layer (L1) of recorded executions.          *)
(* Sources of events, in one exact order (single-threaded drivers):         *)
(*   hook points of jammdb (tx, fl, commit, open, drop families),          *)
(*   the libc interposer (write / sync on the database file, every page     *)
(*   image decoded by the independent parser),                              *)
(*   the driver (begin / commit / drop results, final whole-file parse).    *)
(*                                                                         *)
(* The module rebuilds the L1 state of PageStore from the events: page      *)
(* table, both header slots, shared and private free lists, open readers,   *)
(* the page set of every snapshot.  Every rule of PageRules (the formulas    *)
(* TLC checks on the model) is evaluated at the event it guards, and the    *)
(* structural predicates of C05 are evaluated on the decoded pages at every *)
(* header write.  A rule that is false is reported (one JSON line) and the  *)
(* monitor goes on.  The rules are necessary conditions only: allocation    *)
(* policy, placement, write order of independent pages are unconstrained.   *)
(***************************************************************************)
EXTENDS PageRules, Json, IOUtils, SequencesExt

Rec == ndJsonDeserialize(IOEnv.TRACE)

\* TRUE: require a sync between the data pages and the header (the repaired protocol)
NeedSyncBeforeMeta == IOEnv.SYNC_BEFORE_META = "1"

VARIABLES l,
          ps,        \* page size
          pgs,       \* run start -> decoded page (as last written)
          metas,     \* slot -> header record (txid = -1: not valid)
          live,      \* txid -> pages of that snapshot (with overflow pages and free-list run)
          shFree, shPend,
          readers,   \* sequence of snapshot ids of the open read-only transactions
          w,         \* the writer or NoW
          dirty,     \* data written since the last sync
          dec,       \* page images are decoded (FALSE: long runs that record headers and hooks only)
          use,       \* growth bookkeeping for cyclic workloads (C10): [first, prevnp, pinned, n]
          initing,   \* init_file is creating the file (between init:created and init:synced)
          fh         \* [h, len, wrote]: last hash of the file bytes, its length, a write seen since

tvars == <<l, ps, pgs, metas, live, shFree, shPend, readers, w, dirty, dec, use, initing, fh>>

NoW == [txid |-> 0]
NoFh == [h |-> "", len |-> -1, wrote |-> TRUE]
NoUse == [first |-> -1, prevnp |-> -1, pinned |-> FALSE, n |-> 0, maxnp |-> 0]
\* (total: a file whose headers are all invalid for the pinned layout is reported by the rules, not by a TLC exception)
BadMeta == [txid |-> -1, pid |-> -1, ptype |-> 0, slot |-> -1, magic_ok |-> FALSE, version |-> 0, pagesize |-> 0, root |-> 0,
            ctr |-> 0, np |-> 0, fl |-> 0, hash_ok |-> FALSE, legacy |-> FALSE]
BIG == 1000000000

Rep(rule, detail) ==
    PrintT(ToJson([tag |-> "L1", line |-> l, rule |-> rule, detail |-> detail]))
Check(cond, rule, detail) == IF cond THEN TRUE ELSE Rep(rule, detail)

E(cond, name, p) == IF cond THEN {<<name, p>>} ELSE {}

RECURSIVE SumCard(_)
SumCard(ss) == IF ss = <<>> THEN 0 ELSE Cardinality(Head(ss)) + SumCard(Tail(ss))
RECURSIVE UnionSeq(_)
UnionSeq(ss) == IF ss = <<>> THEN {} ELSE Head(ss) \cup UnionSeq(Tail(ss))

(***************************************************************************)
(* C05: the structural predicates, over the decoded pages.                  *)
(* Walk returns the pages of the subtree (with overflow pages), the set of  *)
(* violated rules, and the smallest / largest key of the subtree.           *)
(***************************************************************************)
RECURSIVE WalkA(_, _, _)
\* anc: the pages on the path from the root (a corrupt file may contain a cycle)
WalkA(pg, p, anc) ==
    IF p \notin DOMAIN pg
    THEN [pages |-> {}, errs |-> {<<"page-never-written", p>>}, lo |-> BIG, hi |-> -1]
    ELSE IF p \in anc \/ Cardinality(anc) > 24
    THEN [pages |-> {}, errs |-> {<<"cycle", p>>}, lo |-> BIG, hi |-> -1]
    ELSE
    LET d   == pg[p]
        run == p..(p + d.ov)
        n   == IF d.ptype \in {1, 2} THEN Len(d.elems) ELSE 0
        common ==
            E(d.bad # "", "undecodable", p) \cup E(d.id # p, "page-id-mismatch", p)
            \cup E(d.ptype \notin {1, 2}, "not-a-tree-page", p)
            \cup E(d.ptype \in {1, 2} /\ d.count # n, "count-mismatch", p)
            \cup E(d.used > (d.ov + 1) * ps, "element-outside-run", p)
            \cup E(d.used > d.len, "element-outside-written-bytes", p)
    IN
    IF d.ptype = 1 THEN
        LET kids == [i \in 1..n |-> WalkA(pg, d.elems[i][2], anc \cup {p})]
            kp   == [i \in 1..n |-> kids[i].pages]
            all  == UnionSeq(kp)
        IN [pages |-> run \cup all,
            errs  |-> common \cup UNION {kids[i].errs : i \in 1..n}
                      \cup E(n = 0, "empty-branch", p)
                      \cup E(\E i \in 1..n : d.elems[i][1] < 0, "unknown-key", p)
                      \cup E(\E i \in 1..(n - 1) : d.elems[i][1] >= d.elems[i + 1][1], "keys-not-ascending", p)
                      \cup E(\E i \in 1..n : kids[i].lo # BIG /\ d.elems[i][1] > kids[i].lo, "separator-above-subtree", p)
                      \cup E(\E i \in 1..(n - 1) : kids[i].hi >= d.elems[i + 1][1], "subtree-reaches-next-separator", p)
                      \cup E(\E i \in 1..n : d.elems[i][2] < 2, "child-is-header-page", p)
                      \cup E(Cardinality(all) # SumCard(kp) \/ run \cap all # {}, "page-reached-twice", p),
            lo |-> IF n = 0 THEN BIG ELSE MinOf({kids[i].lo : i \in 1..n}),
            hi |-> IF n = 0 THEN -1 ELSE MaxOf({kids[i].hi : i \in 1..n})]
    ELSE IF d.ptype = 2 THEN
        LET bidx == {i \in 1..n : d.elems[i][2] = 1 /\ d.elems[i][3] >= 2}
            bseq == SetToSeq(bidx)
            subs == [j \in 1..Len(bseq) |-> WalkA(pg, d.elems[bseq[j]][3], anc \cup {p})]
            sp   == [j \in 1..Len(bseq) |-> subs[j].pages]
            all  == UnionSeq(sp)
        IN [pages |-> run \cup all,
            errs  |-> common \cup UNION {subs[j].errs : j \in 1..Len(bseq)}
                      \cup E(\E i \in 1..n : d.elems[i][1] < 0, "unknown-key", p)
                      \cup E(\E i \in 1..(n - 1) : d.elems[i][1] >= d.elems[i + 1][1], "keys-not-ascending", p)
                      \cup E(\E i \in 1..n : d.elems[i][2] \notin {0, 1}, "bad-element-kind", p)
                      \cup E(\E i \in 1..n : d.elems[i][2] = 0 /\ d.elems[i][3] < 0, "unknown-value", p)
                      \cup E(\E i \in 1..n : d.elems[i][2] = 1 /\ d.elems[i][3] < 2, "bad-bucket-value", p)
                      \cup E(Cardinality(all) # SumCard(sp) \/ run \cap all # {}, "page-reached-twice", p),
            lo |-> IF n = 0 THEN BIG ELSE d.elems[1][1],
            hi |-> IF n = 0 THEN -1 ELSE d.elems[n][1]]
    ELSE [pages |-> run, errs |-> common, lo |-> BIG, hi |-> -1]

Walk(pg, p) == WalkA(pg, p, {})

\* the snapshot a header describes: tree + free-list run, the persisted free ids, violations
Snapshot(pg, m) ==
    LET t == Walk(pg, m.root)
        f == IF m.fl \in DOMAIN pg THEN pg[m.fl] ELSE [ptype |-> 0, ov |-> 0, ids |-> <<>>, count |-> 0, id |-> m.fl, bad |-> "never written"]
        isfl == f.ptype = 4
        ids == IF isfl THEN {f.ids[i] : i \in 1..Len(f.ids)} ELSE {}
        flrun == m.fl..(m.fl + f.ov)
        pages == t.pages \cup flrun
    IN [pages |-> pages, flist |-> ids,
        errs |-> t.errs
                 \cup E(~isfl, "freelist-page-type", m.fl)
                 \cup E(isfl /\ f.id # m.fl, "page-id-mismatch", m.fl)
                 \cup E(isfl /\ f.count # Len(f.ids), "count-mismatch", m.fl)
                 \cup E(isfl /\ \E i \in 1..(Len(f.ids) - 1) : f.ids[i] >= f.ids[i + 1], "freelist-not-strictly-ascending", m.fl)
                 \cup E(t.pages \cap flrun # {}, "page-reached-twice", m.fl)
                 \cup E(pages \cap ids # {}, "page-both-live-and-free", m.fl)
                 \cup E(pages \cup ids # 2..(m.np - 1), "page-unaccounted", m.fl)]

MetaOf(e) == IF e.hash_ok /\ e.ptype = 3 THEN e ELSE BadMeta
CurSlot == ChooseSlot(metas)
CurMeta == IF CurSlot >= 0 THEN metas[CurSlot] ELSE BadMeta

TInit ==
    /\ l = 1 /\ ps = 1024
    /\ pgs = <<>> /\ metas = [s \in {0, 1} |-> BadMeta] /\ live = <<>>
    /\ shFree = {} /\ shPend = <<>> /\ readers = <<>> /\ w = NoW /\ dirty = FALSE
    /\ dec = TRUE /\ use = NoUse /\ initing = FALSE /\ fh = NoFh

IsEv(e) == l <= Len(Rec) /\ Rec[l].ev = e /\ l' = l + 1
Ev == Rec[l]

(***************************************************************************)
(* actions                                                                 *)
(***************************************************************************)
TReset ==      \* a new history on a fresh file
    /\ IsEv("reset")
    /\ ps' = Ev.pagesize
    /\ pgs' = <<>> /\ metas' = [s \in {0, 1} |-> BadMeta] /\ live' = <<>>
    /\ shFree' = {} /\ shPend' = <<>> /\ readers' = <<>> /\ w' = NoW /\ dirty' = FALSE
    /\ dec' = (IF "decode" \in DOMAIN Ev THEN Ev.decode ELSE TRUE) /\ use' = NoUse /\ initing' = FALSE /\ fh' = NoFh

\* a trace that starts on an existing file: the independent parse of that file
TSeed ==
    /\ IsEv("seed")
    /\ ps' = Ev.pagesize
    /\ pgs' = [p \in {Ev.pages[i][1] : i \in 1..Len(Ev.pages)} |->
                 Ev.pages[CHOOSE i \in 1..Len(Ev.pages) : Ev.pages[i][1] = p][2]]
    /\ metas' = [s \in {0, 1} |-> MetaOf(Ev.metas[s + 1])]
    /\ live' = <<>> /\ shFree' = {} /\ shPend' = <<>> /\ readers' = <<>> /\ w' = NoW /\ dirty' = FALSE
    /\ dec' = TRUE /\ use' = NoUse /\ initing' = FALSE /\ fh' = NoFh

\* DBInner::open has chosen a header: PageStore!Recover
TOpenMeta ==
    /\ IsEv("open:meta")
    /\ Check(CurSlot >= 0, "no-valid-header", <<>>)
    /\ IF CurSlot < 0 THEN UNCHANGED <<ps, pgs, metas, live, shFree, shPend, readers, w, dirty, dec, use, initing, fh>>
       ELSE IF ~dec
       THEN \* without page contents: the list reloaded is the list the last commit persisted
            /\ Check(Ev.tx_id = CurMeta.txid /\ Ev.slot = CurSlot, "header-choice", <<Ev.tx_id, Ev.slot>>)
            /\ shFree' = shFree \cup UnionAll(shPend) /\ shPend' = <<>> /\ readers' = <<>> /\ w' = NoW
            /\ UNCHANGED <<ps, pgs, metas, live, dirty, dec, use, initing, fh>>
       ELSE LET m == CurMeta
                s == Snapshot(pgs, m) IN
            /\ Check(Ev.tx_id = m.txid /\ Ev.slot = CurSlot, "header-choice", <<Ev.tx_id, Ev.slot, m.txid, CurSlot>>)
            /\ Check(s.errs = {}, "structure-at-open", s.errs)
            /\ shFree' = s.flist /\ shPend' = <<>> /\ readers' = <<>> /\ w' = NoW
            /\ live' = (m.txid :> s.pages) @@ live
            /\ UNCHANGED <<ps, pgs, metas, dirty, dec, use, initing, fh>>

\* Tx::new has read the header
TMetaRead ==
    /\ IsEv("tx:meta_read")
    /\ Check(CurSlot >= 0 /\ Ev.tx_id = CurMeta.txid /\ Ev.slot = CurSlot, "stale-header-read",
             <<Ev.tx_id, Ev.slot>>)
    /\ IF Ev.w = 1
       THEN /\ Check(w = NoW, "second-writer", <<>>)
            /\ w' = [txid |-> Ev.tx_id + 1, base |-> Ev.slot, free |-> shFree, pend |-> shPend,
                     tree |-> IF Ev.tx_id \in DOMAIN live THEN live[Ev.tx_id] ELSE {},
                     alloc |-> {}, written |-> {}, np |-> CurMeta.np, fl |-> CurMeta.fl,
                     phase |-> "open", metaSynced |-> FALSE, before |-> {}, left |-> {}]
       ELSE UNCHANGED w
    /\ UNCHANGED <<ps, pgs, metas, live, shFree, shPend, readers, dirty, dec, use, initing, fh>>

Snaps == {readers[i] : i \in 1..Len(readers)}

TRelease ==
    /\ IsEv("fl:release")
    /\ IF w = NoW THEN UNCHANGED w
       ELSE LET b == Ev.bound
                rel == Released(w.pend, b)
                pend2 == [t \in DOMAIN w.pend \ rel |-> w.pend[t]] IN
            /\ Check(ReleaseBoundOK(b, w.txid, Snaps), "release-bound", <<b, w.txid, readers>>)
            /\ Check(MustReleaseOK(pend2, w.txid, Snaps), "must-release", <<b, w.txid, readers, DOMAIN pend2>>)
            /\ Check(\A i \in 1..Len(readers) : readers[i] \in DOMAIN live =>
                          live[readers[i]] \cap UNION {w.pend[t] : t \in rel} = {},
                     "reader-page-released", <<b, readers>>)
            /\ w' = [w EXCEPT !.free = @ \cup UNION {w.pend[t] : t \in rel}, !.pend = pend2, !.before = {}, !.left = {}]
    /\ UNCHANGED <<ps, pgs, metas, live, shFree, shPend, readers, dirty, dec, use, initing, fh>>

\* What release() really did: the code lists its pending entries (transaction ids) before and after the loop.
\* An entry that disappeared although a transaction newer than the oldest open snapshot freed it still belongs to
\* that reader's snapshot (C03 / C04); an entry that stayed although nobody can need it is never reused (C10).
TPendingEntry ==
    /\ (IsEv("fl:pending") \/ IsEv("fl:pending_left"))
    /\ IF w = NoW THEN UNCHANGED w
       ELSE IF Ev.ev = "fl:pending" THEN w' = [w EXCEPT !.before = @ \cup {Ev.tx}]
       ELSE w' = [w EXCEPT !.left = @ \cup {Ev.tx}]
    /\ UNCHANGED <<ps, pgs, metas, live, shFree, shPend, readers, dirty, dec, use, initing, fh>>

TReleased ==
    /\ IsEv("fl:released")
    /\ IF w = NoW THEN TRUE
       ELSE LET oldest == MinOf(Snaps \cup {w.txid - 1})
                gone == w.before \ w.left IN
            /\ Check(\A t \in gone : t <= oldest, "reader-page-released",
                     <<"entries released", gone, "oldest snapshot in use", oldest, readers>>)
            /\ Check(\A t \in w.left : t >= MinOf(Snaps \cup {w.txid}), "must-release",
                     <<"entries kept", w.left, w.txid, readers>>)
            /\ Check(w.left \subseteq w.before /\ Ev.npending = Cardinality(w.left), "release-result",
                     <<w.before, w.left, Ev.npending>>)
    /\ UNCHANGED <<ps, pgs, metas, live, shFree, shPend, readers, w, dirty, dec, use, initing, fh>>

\* a read-only transaction is ready / goes away (hooks outside the registry code)
TReady ==
    /\ IsEv("tx:ready")
    /\ IF Ev.w = 0 THEN readers' = Append(readers, Ev.tx_id) ELSE UNCHANGED readers
    /\ UNCHANGED <<ps, pgs, metas, live, shFree, shPend, w, dirty, dec, use, initing, fh>>

RemoveOne(seq, x) ==
    LET idx == {i \in 1..Len(seq) : seq[i] = x} IN
    IF idx = {} THEN seq
    ELSE LET k == MinOf(idx) IN SubSeq(seq, 1, k - 1) \o SubSeq(seq, k + 1, Len(seq))

TDropEnter ==
    /\ IsEv("drop:enter")
    /\ IF Ev.w = 0 THEN readers' = RemoveOne(readers, Ev.tx_id) /\ UNCHANGED w
       ELSE readers' = readers /\ w' = NoW
    /\ UNCHANGED <<ps, pgs, metas, live, shFree, shPend, dirty, dec, use, initing, fh>>

TFree ==
    /\ IsEv("fl:free")
    /\ IF w = NoW THEN Rep("free-outside-writer", <<Ev.page, Ev.n>>) /\ UNCHANGED w
       ELSE LET run == Run(Ev.page, Ev.n) IN
            /\ Check(~dec \/ run \subseteq w.tree, "free-of-page-not-owned", <<Ev.page, Ev.n>>)
            /\ Check(run \cap (w.free \cup UnionAll(w.pend)) = {}, "double-free", <<Ev.page, Ev.n>>)
            /\ Check(\A x \in run : x >= 2, "free-of-header-page", <<Ev.page, Ev.n>>)
            /\ w' = [w EXCEPT !.tree = @ \ run, !.pend = AddPend(w.pend, w.txid, run)]
    /\ UNCHANGED <<ps, pgs, metas, live, shFree, shPend, readers, dirty, dec, use, initing, fh>>

\* pages of every snapshot that must stay untouched: the current header's (what a crash now
\* recovers to) and every open reader's.  The OLDER header's pages are recycled by design as
\* soon as the next writer starts (see PageStore: FallbackIntact holds only while "quiet").
Protected ==
    UNION {live[t] : t \in ((IF CurSlot >= 0 THEN {CurMeta.txid} ELSE {}) \cup Snaps) \cap DOMAIN live}

TAlloc ==
    /\ IsEv("fl:alloc")
    /\ IF w = NoW THEN Rep("alloc-outside-writer", <<Ev.page, Ev.n>>) /\ UNCHANGED w
       ELSE LET run == Run(Ev.page, Ev.n) IN
            /\ Check(AllocOK(Ev.page, Ev.n, w.free, w.np), "alloc-rule",
                     <<Ev.page, Ev.n, Ev.extended, w.np>>)
            /\ Check(run \cap Protected = {}, "alloc-of-live-page", <<Ev.page, Ev.n>>)
            /\ Check(Ev.num_pages = (IF Ev.page = w.np THEN w.np + Ev.n ELSE w.np), "high-water-mark",
                     <<Ev.num_pages, w.np>>)
            /\ w' = [w EXCEPT !.free = @ \ run, !.tree = @ \cup run, !.alloc = @ \cup run,
                              !.np = Ev.num_pages]
    /\ UNCHANGED <<ps, pgs, metas, live, shFree, shPend, readers, dirty, dec, use, initing, fh>>

TFlAlloc ==
    /\ IsEv("commit:fl_alloc")
    /\ w' = IF w = NoW THEN w ELSE [w EXCEPT !.fl = Ev.page, !.phase = "data"]
    /\ UNCHANGED <<ps, pgs, metas, live, shFree, shPend, readers, dirty, dec, use, initing, fh>>

\* the file must be long enough before anything beyond the old end is written (C16 growth)
TSized ==
    /\ IsEv("commit:sized")
    /\ UNCHANGED <<ps, pgs, metas, live, shFree, shPend, readers, w, dirty, dec, use, initing, fh>>

TWritePage ==
    /\ IsEv("write") /\ Ev.kind = "page"
    /\ LET run == Run(Ev.page, Ev.n) IN
       IF initing
       THEN \* file initialisation (pages 2 and 3)
            /\ pgs' = (Ev.page :> Ev.pg) @@ pgs
            /\ UNCHANGED <<w, dirty>>
       ELSE /\ Check(w # NoW, "write-outside-commit", <<Ev.page, Ev.n>>)
            /\ Check(Ev.aligned, "unaligned-write", <<Ev.page>>)
            /\ Check(w = NoW \/ run \subseteq w.alloc, "write-outside-allocation", <<Ev.page, Ev.n>>)
            /\ Check(run \cap Protected = {}, "live-page-overwritten", <<Ev.page, Ev.n>>)
            \* the file must have been extended (and re-mapped) before anything is written there
            /\ Check(Ev.fits, "write-beyond-end-of-file", <<Ev.page, Ev.n, Ev.flen>>)
            /\ Check(w = NoW \/ w.phase = "data", "data-write-after-header", <<Ev.page>>)
            /\ Check(Ev.pg.ov + 1 >= Ev.n, "run-longer-than-overflow", <<Ev.page, Ev.n>>)
            /\ pgs' = (Ev.page :> Ev.pg) @@ pgs
            /\ w' = IF w = NoW THEN w ELSE [w EXCEPT !.written = @ \cup {Ev.page}]
            /\ dirty' = TRUE
    /\ UNCHANGED <<ps, metas, live, shFree, shPend, readers, dec, use, initing>>
    /\ fh' = [fh EXCEPT !.wrote = TRUE]

TSync ==
    /\ IsEv("sync")
    /\ dirty' = FALSE
    /\ w' = IF w # NoW /\ w.phase = "meta-written" THEN [w EXCEPT !.metaSynced = TRUE] ELSE w
    /\ UNCHANGED <<ps, pgs, metas, live, shFree, shPend, readers, dec, use, initing, fh>>

TWriteMeta ==
    /\ IsEv("write") /\ Ev.kind = "meta"
    /\ LET m == MetaOf(Ev.meta) IN
       IF w = NoW
       THEN \* file initialisation writes both slots; anything else is a write outside a commit
            /\ Check(initing, "header-write-outside-commit", <<Ev.page>>)
            /\ Check(m.txid >= 0, "invalid-header-written", <<Ev.page, "at file initialisation">>)
            /\ metas' = [metas EXCEPT ![Ev.page] = m]
            /\ UNCHANGED <<live, w>>
       ELSE LET s == Snapshot(pgs, m) IN
            /\ Check(m.txid >= 0, "invalid-header-written", <<Ev.page>>)
            /\ Check(Ev.page # w.base, "header-over-the-current-slot", <<Ev.page, w.base>>)
            /\ Check(Ev.short \/ Ev.len = ps, "header-not-whole-page", <<Ev.len>>)
            /\ Check(m.txid < 0 \/ (m.txid = w.txid /\ m.np = w.np /\ m.fl = w.fl /\ m.slot = Ev.page /\ m.pagesize = ps),
                     "header-fields", <<m, w.txid, w.np, w.fl>>)
            /\ Check((w.tree \cap w.alloc) \subseteq UNION {Run(p, pgs[p].ov + 1) : p \in w.written \cap DOMAIN pgs},
                     "allocated-page-not-written", (w.tree \cap w.alloc))
            /\ Check(~NeedSyncBeforeMeta \/ ~dirty, "header-before-data-sync", <<w.txid>>)
            /\ Check(~dec \/ m.txid < 0 \/ s.errs = {}, "structure", s.errs)
            /\ Check(~dec \/ m.txid < 0 \/ s.pages = w.tree, "reachable-vs-owned",
                     <<s.pages \ w.tree, w.tree \ s.pages>>)
            /\ Check(~dec \/ m.txid < 0 \/ s.flist = w.free \cup UnionAll(w.pend), "persisted-freelist",
                     <<s.flist, w.free, w.pend>>)
            /\ metas' = [metas EXCEPT ![Ev.page] = m]
            /\ live' = IF dec /\ m.txid >= 0 THEN (m.txid :> s.pages) @@ live ELSE live
            /\ w' = [w EXCEPT !.phase = "meta-written"]
    /\ UNCHANGED <<ps, pgs, shFree, shPend, readers, dirty, dec, use, initing>>
    /\ fh' = [fh EXCEPT !.wrote = TRUE]

TPublished ==
    /\ IsEv("commit:published")
    /\ IF w = NoW THEN Rep("publish-outside-writer", <<>>) /\ UNCHANGED <<shFree, shPend>>
       ELSE \* (on the error path the list is published without a completed sync: the header may
            \* be visible in the file although commit reports the failure)
            /\ Check(w.phase = "meta-written", "publish-before-header", <<w.txid>>)
            /\ shFree' = w.free /\ shPend' = w.pend
    /\ UNCHANGED <<ps, pgs, metas, live, readers, w, dirty, dec, use, initing, fh>>

\* commit is about to return Ok: the header must have been synced
TCommitDone ==
    /\ IsEv("commit:done")
    /\ IF w = NoW THEN TRUE ELSE Check(w.metaSynced, "commit-ok-before-header-sync", <<w.txid>>)
    /\ UNCHANGED <<ps, pgs, metas, live, shFree, shPend, readers, w, dirty, dec, use, initing, fh>>

\* with no writer inside, the shared lists are what the current header persisted (C11)
FLConsistentNow ==
    ~dec \/
    LET m == CurMeta
        f == IF m.fl \in DOMAIN pgs /\ pgs[m.fl].ptype = 4 THEN {pgs[m.fl].ids[i] : i \in 1..Len(pgs[m.fl].ids)} ELSE {}
    IN  shFree \cup UnionAll(shPend) = f

\* the writer is gone (committed, failed or rolled back)
TDropDone ==
    /\ IsEv("drop:done")
    /\ IF Ev.w = 1 /\ CurSlot >= 0
       THEN Check(FLConsistentNow, "shared-freelist-vs-header", <<shFree, shPend, CurMeta.txid>>)
       ELSE TRUE
    /\ UNCHANGED <<ps, pgs, metas, live, shFree, shPend, readers, w, dirty, dec, use, initing, fh>>

\* the final whole-file parse must show what the write events built
TParse ==
    /\ IsEv("parse")
    /\ LET P == Ev.pages
           ids == {P[i][1] : i \in 1..Len(P)}
           same(a, b) == /\ a.ptype = b.ptype /\ a.count = b.count /\ a.ov = b.ov /\ a.id = b.id
                         /\ IF a.ptype = 4 THEN a.ids = b.ids ELSE IF a.ptype \in {1, 2} THEN a.elems = b.elems ELSE TRUE
       IN /\ Check(Ev.chosen = CurSlot, "file-header-choice", <<Ev.chosen, CurSlot>>)
          /\ Check(\A s \in {0, 1} : MetaOf(Ev.metas[s + 1]).txid = metas[s].txid, "file-headers", <<>>)
          /\ Check(\A i \in 1..Len(P) : P[i][1] \in DOMAIN pgs /\ same(pgs[P[i][1]], P[i][2]), "file-page-differs",
                   {P[i][1] : i \in {j \in 1..Len(P) : ~(P[j][1] \in DOMAIN pgs /\ same(pgs[P[j][1]], P[j][2]))}})
    /\ UNCHANGED <<ps, pgs, metas, live, shFree, shPend, readers, w, dirty, dec, use, initing, fh>>

\* C10: a cyclic workload returns to the same logical content at every "cycle" marker.  Pages in
\* use (high-water mark minus free and pending) must not grow with the number of cycles, and
\* the file must stop growing once no reader has been pinning pages for two cycles.
InUse == CurMeta.np - 2 - Cardinality(shFree \cup UnionAll(shPend))
TCycle ==
    /\ IsEv("cycle")
    /\ LET u == InUse
           pin == Len(readers) > 0 \/ Ev.pinned
       IN /\ Check(use.first < 0 \/ u <= 3 * use.first + 16, "pages-in-use-grow-with-bounded-data",
                   <<use.n, u, use.first>>)
          \* (fragmentation of multi-page runs makes small late extensions legitimate: the gate is a
          \* generous multiple of the pages in use, not "no growth"; it is suspended while and
          \* shortly after a reader pins pages, and never looks at the pages a reader pinned)
          /\ Check(use.n < 3 \/ pin \/ use.pinned \/ CurMeta.np <= use.maxnp + 4 * MaxOf({u, use.first}) + 64,
                   "file-grows-with-bounded-data", <<use.n, CurMeta.np, u, use.first>>)
          /\ use' = [first |-> IF use.n = 1 THEN u ELSE use.first, prevnp |-> CurMeta.np, pinned |-> pin,
                     n |-> use.n + 1, maxnp |-> IF pin THEN CurMeta.np ELSE use.maxnp]
    /\ UNCHANGED <<ps, pgs, metas, live, shFree, shPend, readers, w, dirty, dec, initing, fh>>

TInitFile ==
    /\ l <= Len(Rec) /\ Rec[l].ev \in {"init:enter", "init:synced"} /\ l' = l + 1
    /\ initing' = (Rec[l].ev = "init:enter")
    /\ UNCHANGED <<ps, pgs, metas, live, shFree, shPend, readers, w, dirty, dec, use, fh>>

\* C06: the bytes (and the length) of the file change only through the writes of a commit or of
\* file creation.  The driver hashes the file around rollbacks, read-only transactions, failed
\* calls and re-opens.
TFileHash ==
    /\ IsEv("filehash")
    /\ Check(fh.len < 0 \/ fh.wrote \/ (fh.h = Ev.h /\ fh.len = Ev.len), "file-changed-without-a-commit",
             <<fh.len, Ev.len, Ev.at>>)
    /\ fh' = [h |-> Ev.h, len |-> Ev.len, wrote |-> FALSE]
    /\ UNCHANGED <<ps, pgs, metas, live, shFree, shPend, readers, w, dirty, dec, use, initing>>

Known == {"reset", "seed", "cycle", "filehash", "init:enter", "init:synced", "open:meta", "tx:meta_read", "fl:release", "fl:pending", "fl:pending_left", "fl:released", "tx:ready", "drop:enter", "fl:free", "fl:alloc",
          "commit:fl_alloc", "commit:sized", "write", "sync", "commit:published", "commit:done", "drop:done", "parse"}
TOther ==
    /\ l <= Len(Rec) /\ Rec[l].ev \notin Known /\ l' = l + 1
    /\ UNCHANGED <<ps, pgs, metas, live, shFree, shPend, readers, w, dirty, dec, use, initing, fh>>

TNext == TReset \/ TSeed \/ TFileHash \/ TCycle \/ TInitFile \/ TOpenMeta \/ TMetaRead \/ TRelease \/ TPendingEntry \/ TReleased \/ TReady \/ TDropEnter \/ TFree \/ TAlloc \/ TFlAlloc
         \/ TSized \/ TWritePage \/ TSync \/ TWriteMeta \/ TPublished \/ TCommitDone \/ TDropDone \/ TParse \/ TOther

TSpec == TInit /\ [][TNext]_tvars

Accepted ==
    LET d == TLCGet("stats").diameter IN
    IF d - 1 = Len(Rec) THEN TRUE
    ELSE Print(ToJson([tag |-> "STUCK", line |-> d]), FALSE)
=============================================================================
