SPECIFICATION MCSpec
CONSTANTS
  Key = {0, 1}
  Val = {0}
  MaxDepth = 2
  TxN = 2
  MaxCtr = 1
CONSTRAINT MCConstraint
INVARIANT KVTypeOK
INVARIANT AllSorted
INVARIANT SeekSound
PROPERTY SnapshotStable
PROPERTY OnlyCommitChanges
CHECK_DEADLOCK FALSE
