SPECIFICATION FairSpec
CONSTANTS
  Readers = {1}
  Writers = {11, 12}
  Commits <- c_Commits
  Reads = 1
  Grows = {1}
  RegisterAtomically = TRUE
  MaxPage = 7
INVARIANT TypeOK
PROPERTY Progress
