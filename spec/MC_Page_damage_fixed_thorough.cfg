SPECIFICATION Spec
CONSTANTS
  MaxPage = 9
  MaxTx = 4
  MaxReaders = 0
  MaxEdits = 2
  SyncBeforeMeta = TRUE
  PublishOnError = TRUE
  Crashes = {"kill"}
  Faults = FALSE
  MaxFaults = 1
  Damages = TRUE
INVARIANT TypeOK
INVARIANT ReaderPinned
INVARIANT ReaderIntact
INVARIANT AfterCrash
INVARIANT AllImagesRecoverable
INVARIANT FallbackIntact
INVARIANT Accounting
INVARIANT FLConsistent
INVARIANT WriterSane
CHECK_DEADLOCK FALSE
