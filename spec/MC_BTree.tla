------------------------------ MODULE MC_BTree ------------------------------
(***************************************************************************)
(* Histories of write transactions over BTree.tla: a seed (transactions     *)
(* that build the starting tree), then every sequence of <= MaxOps put /    *)
(* delete per transaction and <= MaxTx transactions.  After every           *)
(* operation the transaction's own view (get of every key, a full cursor    *)
(* scan) must equal the reference map (C07); after every commit the new     *)
(* tree must hold exactly the reference map, be a search tree, share no     *)
(* page, reference no freed page and leak none (C01, C05, C10).            *)
(*                                                                         *)
(* With Emit = TRUE every commit prints one JSON line (history so far,      *)
(* expected listing, expected page structure) for the replay into the real  *)
(* code (jvh btree-run).                                                    *)
(***************************************************************************)
EXTENDS BTree, Json

CONSTANTS MaxOps, MaxTx, Seed, Emit, OpKeys, Kinds

VARIABLES s, ref, ntx, nops, bad, hist

vars == <<s, ref, ntx, nops, bad, hist>>
View == <<s, ref, ntx, nops, bad>>

EmptyFn == <<>>
Fresh(pages, root, next) ==
    [pages |-> pages, nodes |-> <<>>, pnode |-> EmptyFn, pparent |-> EmptyFn, root |-> root,
     freed |-> {}, refreed |-> {}, next |-> next, dirty |-> FALSE, panic |-> "", open |-> EmptyFn]

S0 == Fresh((2 :> [leaf |-> TRUE, keys |-> <<>>, kids |-> <<>>]), 2, 3)
Ref0 == [k \in Keys |-> 0]

NextVer(v) == IF v = 1 THEN 2 ELSE 1
NextBVer(v) == IF v = 10 THEN 11 ELSE 10
IsB(v) == v >= 10
\* which operations make sense on key k (the others are rejected by the code with an error and change nothing)
OpOK(rf, kind, k) ==
    CASE kind = "put" -> ~IsB(rf[k])
      [] kind = "del" -> rf[k] \in {1, 2}
      [] kind = "mkb" -> rf[k] = 0
      [] kind = "touch" -> IsB(rf[k])
      [] kind = "delb" -> IsB(rf[k])
ApplyOp(st, rf, op) ==
    CASE op[1] = "put" -> <<Put(st, op[2], NextVer(rf[op[2]])), [rf EXCEPT ![op[2]] = NextVer(@)]>>
      [] op[1] = "del" -> <<Del(st, op[2]), [rf EXCEPT ![op[2]] = 0]>>
      [] op[1] = "mkb" -> <<MkB(st, op[2]), [rf EXCEPT ![op[2]] = 10]>>
      [] op[1] = "touch" -> <<Touch(st, op[2], NextBVer(rf[op[2]])), [rf EXCEPT ![op[2]] = NextBVer(@)]>>
      [] op[1] = "delb" -> <<DelB(st, op[2]), [rf EXCEPT ![op[2]] = 0]>>
\* the orders in which spill may write the opened nested buckets back (HashMap iteration order)
Orders(S) == {f \in [1..Cardinality(S) -> S] : \A i, j \in 1..Cardinality(S) : i # j => f[i] # f[j]}
SomeOrder(S) == CHOOSE f \in Orders(S) : TRUE

RefListing(rf) ==
    LET ks == {k \in Keys : rf[k] # 0}
        n == Cardinality(ks)
        kth(i) == CHOOSE k \in ks : Cardinality({j \in ks : j < k}) = i - 1
    IN  [i \in 1..n |-> <<kth(i), rf[kth(i)]>>]

\* renumber the pages of the committed tree in depth-first order (states that differ only in page ids coincide)
Canon(st) ==
    LET rs == Reach(st.pages, st.root, Depth)
        new(p) == 1 + CHOOSE i \in 1..Len(rs) : rs[i] = p /\ \A j \in 1..i - 1 : rs[j] # p
        pg == [q \in {new(p) : p \in Range(rs)} |->
                  LET p == CHOOSE p \in Range(rs) : new(p) = q
                  IN  [st.pages[p] EXCEPT !.kids = IF st.pages[p].leaf THEN @ ELSE [i \in 1..Len(@) |-> new(@[i])]]]
    IN  Fresh(pg, new(st.root), Len(rs) + 2)

\* the checks on a finished commit; "" = fine
Judge(before, after, rf) ==
    LET rs == Reach(after.pages, after.root, Depth)
        old == Range(Reach(before.pages, before.root, Depth))
        made == before.next..(after.next - 1)
    IN  IF after.panic # "" THEN "panic: " \o after.panic
        ELSE IF \E p \in Range(rs) : p \notin DOMAIN after.pages THEN "dangling page reference"
        ELSE IF Cardinality(Range(rs)) # Len(rs) THEN "page referenced twice"
        ELSE IF Listing(after.pages, after.root, Depth) # RefListing(rf) THEN "listing differs from the reference map"
        ELSE IF ~WellFormed(after.pages, after.root, TRUE, Depth) THEN "not a search tree"
        ELSE IF Range(rs) \cap after.freed # {} THEN "freed page still referenced"
        ELSE IF ~(((old \cup made) \ Range(rs)) \subseteq after.freed) THEN "page leaked"
        ELSE ""

RECURSIVE RunTx(_, _, _, _)
RunTx(st, rf, ops, i) ==
    IF i > Len(ops) THEN <<st, rf>>
    ELSE LET r == ApplyOp(st, rf, ops[i]) IN RunTx(r[1], r[2], ops, i + 1)

RECURSIVE RunSeed(_, _, _)
RunSeed(st, rf, i) ==
    IF i > Len(Seed) THEN <<st, rf, "">>
    ELSE LET r == RunTx(st, rf, Seed[i], 1)
             c == CommitTree(r[1], SomeOrder(DOMAIN r[1].open))
             j == Judge(r[1], c, r[2])
         IN  IF j # "" THEN <<c, r[2], j>> ELSE RunSeed(Canon(c), r[2], i + 1)

\* The seed is applied by the first step, not in Init: TLC evaluates Init on the JVM's main thread, whose
\* stack is small (the -Xss of JAVA_TOOL_OPTIONS only reaches the worker threads), and a commit is deep.
Init == s = S0 /\ ref = Ref0 /\ bad = "" /\ ntx = -1 /\ nops = 0 /\ hist = <<>>

DoSeed ==
    /\ ntx = -1
    /\ LET r == RunSeed(S0, Ref0, 1) IN s' = r[1] /\ ref' = r[2] /\ bad' = r[3]
    /\ ntx' = 0
    /\ UNCHANGED <<nops, hist>>

Alive == bad = "" /\ s.panic = "" /\ ntx >= 0

DoOp(kind, k) ==
    /\ Alive /\ nops < MaxOps /\ ntx < MaxTx
    /\ OpOK(ref, kind, k)
    /\ LET r == ApplyOp(s, ref, <<kind, k>>)
       IN  /\ s' = r[1] /\ ref' = r[2]
           /\ (Emit /\ r[1].panic # "") =>
                 PrintT(ToJson([hist |-> hist \o <<<<kind, k>>, <<"commit", 0>>>>, seed |-> Seed, list |-> <<>>,
                                shape |-> [bad |-> 0], ntx |-> ntx + 1, bad |-> "panic: " \o r[1].panic]))
    /\ nops' = nops + 1
    /\ hist' = Append(hist, <<kind, k>>)
    /\ UNCHANGED <<ntx, bad>>

Out(c, j) == [hist |-> Append(hist, <<"commit", 0>>), seed |-> Seed, list |-> RefListing(ref),
              shape |-> IF j = "" THEN Shape(c.pages, c.root, Depth) ELSE [bad |-> 0], ntx |-> ntx + 1, bad |-> j]

DoCommit ==
    /\ Alive /\ nops > 0 /\ ntx < MaxTx
    /\ \E ord \in Orders(DOMAIN s.open) :
       LET c == CommitTree(s, ord)
           j == Judge(s, c, ref)
       IN  /\ bad' = j
           /\ s' = IF j = "" THEN Canon(c) ELSE c
           /\ Emit => PrintT(ToJson(Out(c, j)))
    /\ ntx' = ntx + 1 /\ nops' = 0
    /\ hist' = Append(hist, <<"commit", 0>>)
    /\ UNCHANGED ref

Next == DoSeed \/ (\E kind \in Kinds, k \in OpKeys : DoOp(kind, k)) \/ DoCommit
Spec == Init /\ [][Next]_vars

(* ---- invariants ---------------------------------------------------------- *)
NoPanic == s.panic = ""
CommitOK == bad = ""
\* C07 inside the transaction
\* (a touched nested bucket keeps its old entry until spill: compare the kind)
Kind(v) == IF IsB(v) THEN 10 ELSE v
ReadYourWrites == Alive => \A k \in Keys : Kind(Get(s, k)) = Kind(ref[k])
ScanYourWrites == Alive => Scan(s) = [i \in 1..Len(RefListing(ref)) |-> RefListing(ref)[i][1]]
\* C08 inside the transaction: seek reports existence and stands on the key or, for an absent key, on an immediate
\* neighbour; iterating from there yields every later entry in order
SeekYourWrites ==
    Alive => \A k \in Keys :
        LET r == Seek(s, k)
            present == {x \in Keys : ref[x] # 0}
            below == {x \in present : x < k}
            above == {x \in present : x > k}
            nbrs == (IF below = {} THEN {} ELSE {CHOOSE x \in below : \A y \in below : y <= x})
                    \cup (IF above = {} THEN {} ELSE {CHOOSE x \in above : \A y \in above : y >= x})
            lst == SeekList(s, k)
            cur == IF lst = <<>> THEN 0 ELSE lst[1]
            from(c) == LET ks == {x \in present : x >= c}
                           kth(i) == CHOOSE x \in ks : Cardinality({y \in ks : y < x}) = i - 1
                       IN  [i \in 1..Cardinality(ks) |-> kth(i)]
        IN  /\ r.exact <=> ref[k] # 0
            /\ IF ref[k] # 0 THEN cur = k
               ELSE IF present = {} THEN cur = 0
               ELSE cur \in nbrs
            /\ cur # 0 => lst = from(cur)
\* ... and every range with both bounds among OpKeys (all nine combinations of bound kinds)
RangeYourWrites ==
    Alive => \A lk \in {"I", "E", "U"}, hk \in {"I", "E", "U"}, lo \in OpKeys, hi \in OpKeys :
        LET present == {x \in Keys : ref[x] # 0}
            want == {x \in present : /\ (lk = "U" \/ (lk = "I" /\ x >= lo) \/ (lk = "E" /\ x > lo))
                                      /\ (hk = "U" \/ (hk = "I" /\ x <= hi) \/ (hk = "E" /\ x < hi))}
            kth(i) == CHOOSE x \in want : Cardinality({y \in want : y < x}) = i - 1
        IN  RangeList(s, lk, lo, hk, hi) = [i \in 1..Cardinality(want) |-> kth(i)]
\* the nodes' own data stay sorted (the binary searches of the code assume it)
NodesSorted == \A i \in 1..Len(s.nodes) : s.nodes[i].deleted \/ IsSorted(s.nodes[i].keys)
=============================================================================
