----------------------------- MODULE PageRules -----------------------------
(***************************************************************************)
(* The safety rules of the page layer as state-free operators, shared by    *)
(* the model (PageStore) and by the trace specification (Trace_Page) so     *)
(* that what TLC proves on the model and what it checks on recorded         *)
(* executions are literally the same formulas.                              *)
(***************************************************************************)
EXTENDS Integers, Sequences, FiniteSets, TLC

MinOf(S) == CHOOSE x \in S : \A y \in S : x <= y
MaxOf(S) == CHOOSE x \in S : \A y \in S : x >= y
UnionAll(f) == UNION {f[t] : t \in DOMAIN f}

Valid(m) == m.txid >= 0

\* the header choice of DBInner::meta(): both valid -> higher id, ties -> slot 1
ChooseSlot(ms) ==
    IF Valid(ms[0]) /\ Valid(ms[1]) THEN (IF ms[0].txid > ms[1].txid THEN 0 ELSE 1)
    ELSE IF Valid(ms[0]) THEN 0
    ELSE IF Valid(ms[1]) THEN 1
    ELSE -1

\* Freelist::release(b): pending sets of transactions t < b become allocatable.
\* MUST NOT: release what an open reader may still need  (b - 1 <= every reader's snapshot)
\* MUST    : release everything older than every reader and this writer (C10)
ReleaseBoundOK(b, txid, snaps) == \A s \in snaps \cup {txid - 1} : b - 1 <= s
Released(pend, b) == {t \in DOMAIN pend : t < b}
MustReleaseOK(pendAfter, txid, snaps) ==
    \A t \in DOMAIN pendAfter : t >= MinOf(snaps \cup {txid})

AddPend(pend, t, S) == IF t \in DOMAIN pend THEN [pend EXCEPT ![t] = @ \cup S] ELSE (t :> S) @@ pend

\* allocation of a run of n pages starting at id: any run inside the free set, or the end of
\* the file -- the latter only if no run of n consecutive free pages exists
Run(id, n) == id..(id + n - 1)
FitExists(free, n) == \E a \in free : Run(a, n) \subseteq free
AllocOK(id, n, free, np) ==
    \/ Run(id, n) \subseteq free
    \/ (id = np /\ ~FitExists(free, n))

\* every page below the high-water mark is exactly one of: page of the snapshot (tree, nested
\* buckets, free-list page, with their overflow pages), entry of the persisted free list
AccountingOK(pages, flist, np) ==
    /\ pages \cap flist = {}
    /\ pages \cup flist = 2..(np - 1)
=============================================================================
