------------------------------- MODULE MC_KV --------------------------------
(***************************************************************************)
(* Exhaustive check of L0 itself on a small universe: the invariants and    *)
(* action properties of KVStore under every interleaving of up to TxN open  *)
(* transactions issuing every call with every argument.                     *)
(***************************************************************************)
EXTENDS KVStore

CONSTANTS Key, Val, MaxDepth, TxN, MaxCtr

Paths == UNION {[1..n -> Key] : n \in 0..MaxDepth}
Bounds == {"I", "E", "U"}
PointCalls == {"put", "get", "getkv", "del", "getb", "mkb", "gocb", "delb", "seek"}
ListCalls == {"nextint", "scan", "buckets", "kvpairs", "again"}

Ops == [c : PointCalls, p : Paths, k : Key, v : Val, lk : {"U"}, lo : {0}, hk : {"U"}, hi : {0}]
       \cup [c : ListCalls, p : Paths, k : {0}, v : {0}, lk : {"U"}, lo : {0}, hk : {"U"}, hi : {0}]
       \cup [c : {"range", "rangeb", "rangekv"}, p : Paths \ {<<>>}, k : {0}, v : {0},
             lk : Bounds, lo : Key, hk : Bounds, hi : Key]

Tx == 1..TxN

MCNext ==
    \/ \E t \in Tx, w \in BOOLEAN : Begin(t, w)
    \/ \E t \in DOMAIN txs, o \in Ops :
          /\ Len(o.p) < MaxDepth \/ o.c \notin {"mkb", "gocb"}
          /\ \E r \in Do(txs[t].view, txs[t].w, o).res : Call(t, o, r)
    \/ \E t \in DOMAIN txs : CommitOk(t) \/ CommitRO(t) \/ Drop(t)
    \/ Close \/ Open

MCSpec == KVInit /\ [][MCNext]_kvvars

Bounded(tree) == \A p \in DOMAIN tree : tree[p].k = "b" => tree[p].x <= MaxCtr
MCConstraint == Bounded(committed) /\ \A t \in DOMAIN txs : Bounded(txs[t].view)

\* every listing any call can return is strictly ascending, each entry once (C08)
AllSorted ==
    \A t \in DOMAIN txs : \A p \in {q \in DOMAIN txs[t].view : txs[t].view[q].k = "b"} :
        Sorted(Listing(txs[t].view, p))

\* the results of a seek are consistent with the listing: drain is the suffix from cur
SeekSound ==
    \A t \in DOMAIN txs : \A p \in {q \in DOMAIN txs[t].view : txs[t].view[q].k = "b"} : \A k \in Key :
        \A r \in SeekResults(txs[t].view, p, k) :
            LET lst == Listing(txs[t].view, p) IN
            /\ r[2] = (\E i \in 1..Len(lst) : lst[i][1] = k)
            /\ (lst = <<>>) = (r[3] = <<>>)
            /\ r[3] # <<>> => /\ r[4][1] = r[3][1]
                              /\ \E i \in 1..Len(lst) : r[4] = SubSeq(lst, i, Len(lst))
                              /\ r[2] => r[3][1][1] = k
                              /\ ~r[2] => \A e \in {lst[i] : i \in 1..Len(lst)} :
                                      ~(  (r[3][1][1] < e[1] /\ e[1] < k)
                                       \/ (k < e[1] /\ e[1] < r[3][1][1]))
=============================================================================
