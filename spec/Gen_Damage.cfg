SPECIFICATION DSpec
CHECK_DEADLOCK FALSE
