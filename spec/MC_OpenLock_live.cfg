SPECIFICATION FairSpec
CONSTANTS
  Procs = {1, 2, 3}
  FileExists = FALSE
  LockFirst = TRUE
PROPERTY Waits
