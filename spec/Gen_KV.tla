------------------------------- MODULE Gen_KV -------------------------------
(***************************************************************************)
(* Behaviour generator for L0 (spec -> impl).  Every behaviour is           *)
(*   tx1: create the bucket chain Path, put all Fillers, and for every      *)
(*        active key a TLC-chosen initial kind (absent / pair / bucket);    *)
(*        commit                                                            *)
(*   tx2: for every active key, in key order, a TLC-chosen action           *)
(*        (keep / put / del / mkb / delb / gocb), optionally followed by    *)
(*        the full read API (C07); then commit | rollback | commit+reopen   *)
(*   tx3: a fresh read-only transaction reads everything back               *)
(* i.e. every function Active -> PreKinds x Acts, which is the "every       *)
(* subset of deletions and insertions" quantifier of C01, over tree shapes *)
(* fixed by Fillers and the profile.  The expected result set of every      *)
(* call is computed by KVStore!Do and printed with the behaviour.           *)
(***************************************************************************)
EXTENDS KVOps, Json

CONSTANTS NKeys,      \* key universe 0..NKeys-1
          NVals,
          Active,     \* sequence of the keys that are enumerated
          Fillers,    \* set of keys that are always present (shape the tree)
          NestFill,   \* subset of Fillers created as nested buckets (with one pair inside); tx2
                      \* begins by modifying each of them, so that a dirty sub-bucket hangs below
                      \* leaves and branches that the per-key actions then merge or split
          Path,       \* path of the bucket under test, e.g. <<0>> or <<0, 3>>
          PreKinds,   \* subset of {"absent", "kv", "bucket", "nest"}
          Acts,       \* subset of {"keep", "put", "del", "mkb", "delb", "gocb",
                      \*            "delsub", "delsubdelb", "delbmkb", "delbput", "stale"}
          Tails,      \* subset of {"none", "delpath", "delpathmk"}: after the per-key actions of
                      \* tx2, delete the bucket under test itself (child, then ancestor) / recreate it
          Ends,       \* subset of {"commit", "drop", "reopen", "droprerun", "dropchurn"}
          ReadBack,   \* BOOLEAN: full read API after every operation of tx2
          QKeys       \* set of keys: if non-empty, every seek / re-seek key and every pair of
                      \* range bounds over QKeys is queried mid-transaction and after commit (C08)

VARIABLES phase, pre

Op(t, c, p, k, v) == [a |-> "op", t |-> t, c |-> c, p |-> p, k |-> k, v |-> v,
                      lk |-> "U", lo |-> 0, hk |-> "U", hi |-> 0]
ROp(t, c, p, lk, lo, hk, hi) == [a |-> "op", t |-> t, c |-> c, p |-> p, k |-> 0, v |-> 0,
                                 lk |-> lk, lo |-> lo, hk |-> hk, hi |-> hi]

RECURSIVE Run(_, _, _, _)
Run(tree, w, ops, acc) ==
    IF ops = <<>> THEN [tree |-> tree, steps |-> acc]
    ELSE LET o == Head(ops)
             d == Do(tree, w, o)
         IN  Run(d.tree, w, Tail(ops), Append(acc, o @@ [exp |-> d.res]))

RECURSIVE Flatten(_)
Flatten(ss) == IF ss = <<>> THEN <<>> ELSE Head(ss) \o Flatten(Tail(ss))

N == Len(Active)
FillSeq == SetToSortSeq(Fillers, LAMBDA x, y : x < y)

\* tx1
MkChain(t) == [i \in 1..Len(Path) |-> Op(t, "mkb", SubSeq(Path, 1, i - 1), Path[i], 0)]
PreOps(t, pr) ==
    MkChain(t)
    \o Flatten([i \in 1..Len(FillSeq) |->
          IF FillSeq[i] \in NestFill
          THEN <<Op(t, "mkb", Path, FillSeq[i], 0), Op(t, "put", Append(Path, FillSeq[i]), 0, 1)>>
          ELSE <<Op(t, "put", Path, FillSeq[i], FillSeq[i] % NVals)>>])
    \o Flatten([i \in 1..N |->
          CASE pr[i] = "kv"     -> <<Op(t, "put", Path, Active[i], 0)>>
            [] pr[i] = "bucket" -> <<Op(t, "mkb", Path, Active[i], 0),
                                     Op(t, "put", Append(Path, Active[i]), 0, 1)>>
            [] pr[i] = "nest"   -> <<Op(t, "mkb", Path, Active[i], 0),
                                     Op(t, "put", Append(Path, Active[i]), 1, 1),
                                     Op(t, "mkb", Append(Path, Active[i]), 0, 0),
                                     Op(t, "put", Append(Append(Path, Active[i]), 0), 1, 2),
                                     Op(t, "put", Append(Append(Path, Active[i]), 0), 2, 3)>>
            [] OTHER            -> <<>>])

\* the read API on the bucket under test
Reads(t) ==
    <<Op(t, "scan", Path, 0, 0), Op(t, "nextint", Path, 0, 0)>>
    \o Flatten([i \in 1..N |-> <<Op(t, "seek", Path, Active[i], 0), Op(t, "get", Path, Active[i], 0)>>])
    \o <<ROp(t, "range", Path, "I", Active[1], "E", Active[N]),
         ROp(t, "range", Path, "E", Active[1], "I", Active[N]),
         ROp(t, "range", Path, "U", 0, "E", Active[(N + 1) \div 2]),
         ROp(t, "range", Path, "I", Active[(N + 1) \div 2], "U", 0),
         Op(t, "buckets", Path, 0, 0), Op(t, "kvpairs", Path, 0, 0), Op(t, "again", Path, 0, 0)>>

BoundKinds == {"I", "E", "U"}
QSeq == SetToSortSeq(QKeys, LAMBDA x, y : x < y)
QueryOps(t) ==
    IF QKeys = {} THEN <<>>
    ELSE Flatten([i \in 1..Len(QSeq) |->
            <<Op(t, "seek", Path, QSeq[i], 0),
              [k |-> QSeq[i]] @@ ROp(t, "reseek", Path, "U", QSeq[1 + ((i * 7) % Len(QSeq))], "U", i % 3)>>])
         \o SetToSeq({ROp(t, "range", Path, lk, lo, hk, hi) :
                        lk \in BoundKinds, hk \in BoundKinds, lo \in QKeys, hi \in QKeys})
         \o <<ROp(t, "rangeb", Path, "E", QSeq[1], "I", QSeq[Len(QSeq)]),
              ROp(t, "rangekv", Path, "I", QSeq[1], "E", QSeq[Len(QSeq)]),
              Op(t, "buckets", Path, 0, 0), Op(t, "kvpairs", Path, 0, 0), Op(t, "again", Path, 0, 0)>>
\* all of them read one listing: computed once per tree (same operator Do itself uses)
AllQueries(t, tree) ==
    IF QKeys = {} \/ NavErr(tree, Path) # "" THEN <<>>
    ELSE LET lst == Listing(tree, Path)
             qs  == QueryOps(t)
         IN  [i \in 1..Len(qs) |-> qs[i] @@ [exp |-> ReadRes(lst, qs[i])]]

ActOps(t, ac) ==
    Flatten([i \in 1..N |->
        (CASE ac[i] = "put"  -> <<Op(t, "put", Path, Active[i], 1 + (i % (NVals - 1)))>>
           [] ac[i] = "del"  -> <<Op(t, "del", Path, Active[i], 0)>>
           [] ac[i] = "mkb"  -> <<Op(t, "mkb", Path, Active[i], 0)>>
           [] ac[i] = "delb" -> <<Op(t, "delb", Path, Active[i], 0)>>
           [] ac[i] = "gocb" -> <<Op(t, "gocb", Path, Active[i], 0),
                                  Op(t, "put", Append(Path, Active[i]), 1, 2)>>
           [] ac[i] = "stale" -> <<Op(t, "stale", Path, Active[i], i)>>
           [] ac[i] = "delsub" -> <<Op(t, "delb", Append(Path, Active[i]), 0, 0)>>
           [] ac[i] = "delsubdelb" -> <<Op(t, "delb", Append(Path, Active[i]), 0, 0),
                                        Op(t, "delb", Path, Active[i], 0)>>
           [] ac[i] = "delbmkb" -> <<Op(t, "delb", Path, Active[i], 0), Op(t, "mkb", Path, Active[i], 0),
                                     Op(t, "put", Append(Path, Active[i]), 2, 1)>>
           [] ac[i] = "delbput" -> <<Op(t, "delb", Path, Active[i], 0), Op(t, "put", Path, Active[i], 2)>>
           [] OTHER          -> <<>>)
        \o (IF ReadBack /\ ac[i] # "keep" THEN Reads(t) ELSE <<>>)])

\* tx3: everything visible, driven by the expected tree
ProjOps(t, tree) ==
    LET bks == SetToSeq({p \in DOMAIN tree : tree[p].k = "b"})
    IN  Flatten([i \in 1..Len(bks) |->
          IF bks[i] = <<>> THEN <<Op(t, "buckets", <<>>, 0, 0)>>
          ELSE <<Op(t, "scan", bks[i], 0, 0), Op(t, "nextint", bks[i], 0, 0)>>])
        \o Flatten([i \in 1..N |-> <<Op(t, "get", Path, Active[i], 0), Op(t, "seek", Path, Active[i], 0)>>])

Begin_(t, w) == [a |-> "begin", t |-> t, w |-> w]
End_(a, t)   == [a |-> a, t |-> t]

TailOps(t, tl) ==
    LET pp == SubSeq(Path, 1, Len(Path) - 1) IN
    CASE tl = "delpath"   -> <<Op(t, "delb", pp, Path[Len(Path)], 0)>>
      [] tl = "delpathmk" -> <<Op(t, "delb", pp, Path[Len(Path)], 0), Op(t, "mkb", pp, Path[Len(Path)], 0),
                               Op(t, "put", Path, Active[1], 1)>>
      [] OTHER -> <<>>

Behaviour(pr, ac, end, tl) ==
    LET r1 == Run(EmptyTree, TRUE, PreOps(1, pr), <<>>)
        nf == SetToSortSeq(NestFill, LAMBDA x, y : x < y)
        touch == [i \in 1..Len(nf) |-> Op(2, "put", Append(Path, nf[i]), 1, 2)]
        r2 == Run(r1.tree, TRUE, touch \o ActOps(2, ac) \o TailOps(2, tl), <<>>)
        \* "droprerun": the transaction is abandoned, then the same operations are run again in a
        \* new transaction and committed -- it must behave as if the first had never existed (C06)
        r2b == Run(r1.tree, TRUE, [i \in 1..Len(touch \o ActOps(2, ac) \o TailOps(2, tl)) |->
                                      [(touch \o ActOps(2, ac) \o TailOps(2, tl))[i] EXCEPT !.t = 4]], <<>>)
        \* "dropchurn": the transaction is abandoned, then two unrelated transactions commit (a bucket of their own):
        \* what the abandoned one had freed or allocated must not leak into them (C06)
        CK == NKeys - 1
        r5 == Run(r1.tree, TRUE, <<Op(5, "gocb", <<>>, CK, 0), Op(5, "put", <<CK>>, 0, 1)>>, <<>>)
        r6 == Run(r5.tree, TRUE, <<Op(6, "gocb", <<>>, CK, 0), Op(6, "put", <<CK>>, 0, 2), Op(6, "put", <<CK>>, 1, 1)>>, <<>>)
        final == IF end = "drop" THEN r1.tree ELSE IF end = "dropchurn" THEN r6.tree ELSE r2.tree
        r3 == Run(final, FALSE, ProjOps(3, final), <<>>)
    IN  <<Begin_(1, TRUE)>> \o r1.steps \o <<End_("commit", 1), [a |-> "check"]>>
        \o <<Begin_(2, TRUE)>> \o r2.steps \o AllQueries(2, r2.tree)
        \o (CASE end = "commit" -> <<End_("commit", 2), [a |-> "check"]>>
              [] end = "drop"   -> <<End_("drop", 2)>>
              [] end = "droprerun" -> <<End_("drop", 2), Begin_(4, TRUE)>> \o r2b.steps \o <<End_("commit", 4), [a |-> "check"]>>
              [] end = "dropchurn" -> <<End_("drop", 2), Begin_(5, TRUE)>> \o r5.steps \o <<End_("commit", 5), [a |-> "check"],
                                        Begin_(6, TRUE)>> \o r6.steps \o <<End_("commit", 6), [a |-> "check"]>>
              [] OTHER          -> <<End_("commit", 2), [a |-> "reopen"], [a |-> "check"]>>)
        \o <<Begin_(3, FALSE)>> \o r3.steps \o AllQueries(3, final) \o <<End_("drop", 3)>>

\* an action is only meaningful on a matching initial kind or as an error probe; keep all
GInit == phase = 0 /\ pre = <<>>

ChoosePre ==
    /\ phase = 0
    /\ \E pr \in [1..N -> PreKinds] : pre' = pr
    /\ phase' = 1

Emit ==
    /\ phase = 1
    /\ \E ac \in [1..N -> Acts] : \E end \in Ends : \E tl \in Tails :
          PrintT(ToJson([nk |-> NKeys, nv |-> NVals, pre |-> pre, act |-> ac, end |-> end, tail |-> tl,
                         steps |-> Behaviour(pre, ac, end, tl)]))
    /\ phase' = 2 /\ pre' = <<>>

GNext == ChoosePre \/ Emit
GSpec == GInit /\ [][GNext]_<<phase, pre>>
=============================================================================
