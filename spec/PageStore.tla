----------------------------- MODULE PageStore -----------------------------
(***************************************************************************)
(* L1 -- pages, two header slots, copy-on-write, free list, the commit      *)
(* protocol step by step, page cache versus disk, crashes, I/O faults,      *)
(* header damage and recovery, reader pins.  (C02, C03, C05-accounting,     *)
(* C06, C10, C11, C12.)                                                     *)
(*                                                                         *)
(* One action per critical section of src/tx.rs / src/db.rs /              *)
(* src/freelist.rs.  Guards are the SAFETY conditions only: allocation      *)
(* policy, page placement and the order of independent writes are free.     *)
(* A page's content is abstracted to a stamp (the id of the transaction     *)
(* that wrote it; Garbage for a torn write); a header record carries the    *)
(* pages its snapshot consists of with the stamps it expects, so            *)
(* "the snapshot is intact" is a state predicate.                           *)
(*                                                                         *)
(* Constants select the protocol variant so that the pinned code's order    *)
(* and the repaired order are both checkable:                               *)
(*   SyncBeforeMeta  - data pages are synced before the header is written   *)
(*   PublishOnError  - the shared free list is brought in line with the     *)
(*                     header even when the final sync fails                *)
(***************************************************************************)
EXTENDS PageRules

CONSTANTS MaxPage,          \* page ids are 2..MaxPage (0 and 1 are the header slots)
          MaxTx,            \* bound on transaction ids explored
          MaxReaders,
          MaxEdits,         \* frees / allocations per transaction
          SyncBeforeMeta, PublishOnError,
          Crashes,          \* subset of {"kill", "power"}
          Faults,           \* BOOLEAN: I/O failures of commit steps
          MaxFaults,        \* how many I/O failures in one behaviour (C11: single faults, pairs)
          Damages           \* BOOLEAN: damage to one header at quiescent points

PageId == 2..MaxPage
Garbage == -1
Bad == [txid |-> -1]          \* a header that does not validate

VARIABLES
    cmeta, dmeta,     \* header slots as seen through the page cache / on disk
    cpg, dpg,         \* page stamps, cache / disk
    unsynced,         \* writes since the last completed sync, in order
    shFree, shPend,   \* the shared free list (DBInner.freelist)
    readers,          \* open read-only transactions: set of [id, m]
    w,                \* the writer, or None
    acked,            \* id of the last commit that returned Ok
    crashed,          \* a crash happened and Recover has not run yet
    quiet,            \* no data write since the last successful commit (C12: an interrupted or
                      \* failed later commit may already have recycled the older header's pages)
    nfaults,          \* I/O failures injected so far
    unsure            \* a sync reported failure and none has succeeded since: what is durable
                      \* is unknown, so the power-loss guarantees (C02) are not claimed

vars == <<cmeta, dmeta, cpg, dpg, unsynced, shFree, shPend, readers, w, acked, crashed, quiet, unsure, nfaults>>

None == [txid |-> 0]

Cur == cmeta[ChooseSlot(cmeta)]

Intact(m, pg) == \A p \in DOMAIN m.pages : pg[p] = m.pages[p]
InitMeta == [txid |-> 0, pages |-> (2 :> 0) @@ (3 :> 0), fl |-> 2, flist |-> {}, np |-> 4]

Init ==
    /\ cmeta = [s \in {0, 1} |-> InitMeta] /\ dmeta = cmeta
    /\ cpg = [p \in PageId |-> IF p \in {2, 3} THEN 0 ELSE Garbage] /\ dpg = cpg
    /\ unsynced = <<>>
    /\ shFree = {} /\ shPend = <<>>
    /\ readers = {} /\ w = None
    /\ acked = 0 /\ crashed = FALSE /\ quiet = TRUE /\ unsure = FALSE /\ nfaults = 0

Running == ~crashed

(***************************************************************************)
(* readers                                                                 *)
(***************************************************************************)
BeginR(i) ==
    /\ Running /\ \A r \in readers : r.id # i
    /\ readers' = readers \cup {[id |-> i, m |-> Cur]}
    /\ UNCHANGED <<cmeta, dmeta, cpg, dpg, unsynced, shFree, shPend, w, acked, crashed, quiet, unsure, nfaults>>

EndR(r) ==
    /\ Running /\ r \in readers
    /\ readers' = readers \ {r}
    /\ UNCHANGED <<cmeta, dmeta, cpg, dpg, unsynced, shFree, shPend, w, acked, crashed, quiet, unsure, nfaults>>

Snaps == {r.m.txid : r \in readers}

(***************************************************************************)
(* the writer                                                              *)
(***************************************************************************)
BeginW ==
    /\ Running /\ w = None /\ Cur.txid < MaxTx
    /\ w' = [txid |-> Cur.txid + 1, base |-> ChooseSlot(cmeta), pages |-> Cur.pages, fl |-> Cur.fl,
             np |-> Cur.np, free |-> shFree, pend |-> shPend, towrite |-> {}, edits |-> 0,
             phase |-> "release", meta |-> Bad]
    /\ UNCHANGED <<cmeta, dmeta, cpg, dpg, unsynced, shFree, shPend, readers, acked, crashed, quiet, unsure, nfaults>>

Release(b) ==
    /\ Running /\ w # None /\ w.phase = "release"
    /\ ReleaseBoundOK(b, w.txid, Snaps)
    /\ LET rel == Released(w.pend, b)
           pend2 == [t \in DOMAIN w.pend \ rel |-> w.pend[t]]
       IN /\ MustReleaseOK(pend2, w.txid, Snaps)
          /\ w' = [w EXCEPT !.free = @ \cup UNION {w.pend[t] : t \in rel}, !.pend = pend2,
                            !.phase = "open"]
    /\ UNCHANGED <<cmeta, dmeta, cpg, dpg, unsynced, shFree, shPend, readers, acked, crashed, quiet, unsure, nfaults>>

\* TxFreelist::free of a page of the transaction's current tree
FreeP(p) ==
    /\ Running /\ w # None /\ w.phase = "open" /\ w.edits < MaxEdits
    /\ p \in DOMAIN w.pages /\ p # w.fl
    /\ w' = [w EXCEPT !.pages = [q \in DOMAIN w.pages \ {p} |-> w.pages[q]],
                      !.pend = AddPend(w.pend, w.txid, {p}), !.edits = @ + 1,
                      !.towrite = @ \ {p}]
    /\ UNCHANGED <<cmeta, dmeta, cpg, dpg, unsynced, shFree, shPend, readers, acked, crashed, quiet, unsure, nfaults>>

\* TxFreelist::allocate: any free page, or extend the file only when none is free
AllocChoices(free, np) == {id \in PageId : AllocOK(id, 1, free, np)}

AllocP(id) ==
    /\ Running /\ w # None /\ w.phase = "open" /\ w.edits < MaxEdits
    /\ id \in AllocChoices(w.free, w.np)
    /\ w' = [w EXCEPT !.pages = (id :> w.txid) @@ w.pages, !.free = @ \ {id},
                      !.np = IF id = w.np THEN w.np + 1 ELSE w.np,
                      !.towrite = @ \cup {id}, !.edits = @ + 1]
    /\ UNCHANGED <<cmeta, dmeta, cpg, dpg, unsynced, shFree, shPend, readers, acked, crashed, quiet, unsure, nfaults>>

\* write_data, first block: free the old free-list page, allocate and fill the new one
CommitFL(id) ==
    /\ Running /\ w # None /\ w.phase = "open"
    /\ LET pend1 == AddPend(w.pend, w.txid, {w.fl})
           pages1 == [q \in DOMAIN w.pages \ {w.fl} |-> w.pages[q]]
       IN /\ id \in AllocChoices(w.free, w.np)
          /\ LET free2 == w.free \ {id}
                 np2 == IF id = w.np THEN w.np + 1 ELSE w.np
                 pages2 == (id :> w.txid) @@ pages1
             IN w' = [w EXCEPT !.pages = pages2, !.free = free2, !.pend = pend1, !.np = np2, !.fl = id,
                               !.towrite = @ \cup {id}, !.phase = "data",
                               !.meta = [txid |-> w.txid, pages |-> pages2, fl |-> id,
                                         flist |-> free2 \cup UnionAll(pend1), np |-> np2]]
    /\ UNCHANGED <<cmeta, dmeta, cpg, dpg, unsynced, shFree, shPend, readers, acked, crashed, quiet, unsure, nfaults>>

WriteData(p) ==
    /\ Running /\ w # None /\ w.phase = "data" /\ p \in w.towrite
    /\ cpg' = [cpg EXCEPT ![p] = w.txid]
    /\ unsynced' = Append(unsynced, [k |-> "pg", p |-> p, v |-> w.txid])
    /\ w' = [w EXCEPT !.towrite = @ \ {p}]
    /\ quiet' = FALSE
    /\ UNCHANGED <<cmeta, dmeta, dpg, shFree, shPend, readers, acked, crashed, unsure, nfaults>>

DataDone ==
    /\ Running /\ w # None /\ w.phase = "data" /\ w.towrite = {}
    /\ w' = [w EXCEPT !.phase = IF SyncBeforeMeta THEN "sync1" ELSE "meta"]
    /\ UNCHANGED <<cmeta, dmeta, cpg, dpg, unsynced, shFree, shPend, readers, acked, crashed, quiet, unsure, nfaults>>

SyncNow == dpg' = cpg /\ dmeta' = cmeta /\ unsynced' = <<>> /\ unsure' = FALSE

SyncData ==
    /\ Running /\ w # None /\ w.phase = "sync1"
    /\ SyncNow
    /\ w' = [w EXCEPT !.phase = "meta"]
    /\ UNCHANGED <<cmeta, cpg, shFree, shPend, readers, acked, crashed, quiet, nfaults>>

\* the header goes to the slot the transaction did not start from
WriteMeta ==
    /\ Running /\ w # None /\ w.phase = "meta"
    /\ LET s == 1 - w.base IN
       /\ cmeta' = [cmeta EXCEPT ![s] = w.meta]
       /\ unsynced' = Append(unsynced, [k |-> "meta", s |-> s, m |-> w.meta])
    /\ w' = [w EXCEPT !.phase = "sync2"]
    /\ UNCHANGED <<dmeta, cpg, dpg, shFree, shPend, readers, acked, crashed, quiet, unsure, nfaults>>

SyncMeta ==
    /\ Running /\ w # None /\ w.phase = "sync2"
    /\ SyncNow
    /\ w' = [w EXCEPT !.phase = "publish"]
    /\ UNCHANGED <<cmeta, cpg, shFree, shPend, readers, acked, crashed, quiet, nfaults>>

\* *db.freelist = tx freelist; commit returns Ok; the transaction is dropped
Publish ==
    /\ Running /\ w # None /\ w.phase = "publish"
    /\ shFree' = w.free /\ shPend' = w.pend
    /\ acked' = w.txid
    /\ w' = None
    /\ quiet' = TRUE
    /\ UNCHANGED <<cmeta, dmeta, cpg, dpg, unsynced, readers, crashed, unsure, nfaults>>

\* dropping a write transaction without commit: nothing shared changes (C06)
Rollback ==
    /\ Running /\ w # None /\ w.phase \in {"release", "open"}
    /\ w' = None
    /\ UNCHANGED <<cmeta, dmeta, cpg, dpg, unsynced, shFree, shPend, readers, acked, crashed, quiet, unsure, nfaults>>

(***************************************************************************)
(* I/O faults during commit (C11): the failing call has no effect or a      *)
(* torn effect; commit returns Err and the transaction is dropped.          *)
(***************************************************************************)
FailDataWrite(p, torn) ==
    /\ Faults /\ nfaults < MaxFaults /\ nfaults' = nfaults + 1 /\ Running /\ w # None /\ w.phase = "data" /\ p \in w.towrite
    /\ IF torn
       THEN /\ cpg' = [cpg EXCEPT ![p] = Garbage]
            /\ unsynced' = Append(unsynced, [k |-> "pg", p |-> p, v |-> Garbage])
       ELSE UNCHANGED <<cpg, unsynced>>
    /\ w' = None /\ quiet' = FALSE
    /\ UNCHANGED <<cmeta, dmeta, dpg, shFree, shPend, readers, acked, crashed, unsure>>

FailSyncData ==
    /\ Faults /\ nfaults < MaxFaults /\ nfaults' = nfaults + 1 /\ Running /\ w # None /\ w.phase = "sync1"
    /\ w' = None /\ unsure' = TRUE
    /\ UNCHANGED <<cmeta, dmeta, cpg, dpg, unsynced, shFree, shPend, readers, acked, crashed, quiet>>

FailMetaWrite(torn) ==
    /\ Faults /\ nfaults < MaxFaults /\ nfaults' = nfaults + 1 /\ Running /\ w # None /\ w.phase = "meta"
    /\ IF torn
       THEN /\ cmeta' = [cmeta EXCEPT ![1 - w.base] = Bad]
            /\ unsynced' = Append(unsynced, [k |-> "meta", s |-> 1 - w.base, m |-> Bad])
       ELSE UNCHANGED <<cmeta, unsynced>>
    /\ w' = None
    /\ UNCHANGED <<dmeta, cpg, dpg, shFree, shPend, readers, acked, crashed, quiet, unsure>>

\* the final sync fails after the header reached the page cache: the header is what every
\* later transaction of this process reads
FailSyncMeta ==
    /\ Faults /\ nfaults < MaxFaults /\ nfaults' = nfaults + 1 /\ Running /\ w # None /\ w.phase = "sync2"
    /\ IF PublishOnError THEN shFree' = w.free /\ shPend' = w.pend
       ELSE UNCHANGED <<shFree, shPend>>
    /\ w' = None /\ unsure' = TRUE
    /\ UNCHANGED <<cmeta, dmeta, cpg, dpg, unsynced, readers, acked, crashed, quiet>>

(***************************************************************************)
(* crashes and recovery (C02)                                              *)
(***************************************************************************)
RECURSIVE ApplyWrites(_, _, _, _, _)
\* the writes of `unsynced` whose index is in S, in order; those in T are torn
ApplyWrites(i, S, T, pg, ms) ==
    IF i > Len(unsynced) THEN [pg |-> pg, ms |-> ms]
    ELSE LET u == unsynced[i] IN
         IF i \notin S THEN ApplyWrites(i + 1, S, T, pg, ms)
         ELSE IF u.k = "pg"
              THEN ApplyWrites(i + 1, S, T, [pg EXCEPT ![u.p] = IF i \in T THEN Garbage ELSE u.v], ms)
              ELSE ApplyWrites(i + 1, S, T, pg, [ms EXCEPT ![u.s] = IF i \in T THEN Bad ELSE u.m])

LoseMemory ==
    /\ shFree' = {} /\ shPend' = <<>> /\ readers' = {} /\ w' = None /\ crashed' = TRUE

\* the process is killed: the page cache survives
Kill ==
    /\ "kill" \in Crashes /\ Running
    /\ dpg' = cpg /\ dmeta' = cmeta /\ unsynced' = <<>>
    /\ LoseMemory
    /\ UNCHANGED <<cmeta, cpg, acked, quiet, unsure, nfaults>>

\* power is lost: any subset of the unsynced writes reached the disk, any of them torn
PowerLoss ==
    /\ "power" \in Crashes /\ Running /\ ~unsure
    /\ \E S \in SUBSET (1..Len(unsynced)) : \E T \in SUBSET S :
          LET r == ApplyWrites(1, S, T, dpg, dmeta) IN
          /\ dpg' = r.pg /\ dmeta' = r.ms /\ cpg' = r.pg /\ cmeta' = r.ms
    /\ unsynced' = <<>>
    /\ LoseMemory
    /\ UNCHANGED <<acked, quiet, unsure, nfaults>>

\* DBInner::open: choose the header, load the free-list page as "all free"
Recover ==
    /\ crashed /\ ChooseSlot(cmeta) >= 0
    /\ shFree' = Cur.flist /\ shPend' = <<>>
    /\ crashed' = FALSE
    /\ acked' = Cur.txid
    /\ UNCHANGED <<cmeta, dmeta, cpg, dpg, unsynced, readers, w, unsure, quiet, nfaults>>

\* close and reopen without a crash
Reopen ==
    /\ Running /\ w = None /\ readers = {}
    /\ dpg' = cpg /\ dmeta' = cmeta /\ unsynced' = <<>>
    /\ shFree' = Cur.flist /\ shPend' = <<>>
    /\ UNCHANGED <<cmeta, cpg, readers, w, acked, crashed, unsure, quiet, nfaults>>

\* damage to one header page while the process is down, at a quiescent point (C12)
Damage(s) ==
    /\ Damages /\ Running /\ w = None /\ readers = {} /\ quiet /\ unsynced = <<>>
    /\ Valid(cmeta[0]) /\ Valid(cmeta[1])
    /\ cmeta' = [cmeta EXCEPT ![s] = Bad] /\ dmeta' = [dmeta EXCEPT ![s] = Bad]
    /\ LoseMemory
    /\ acked' = cmeta[1 - s].txid      \* what must be recovered now: the other header's commit
    /\ UNCHANGED <<cpg, dpg, unsynced, quiet, unsure, nfaults>>

Next ==
    \/ \E i \in 1..MaxReaders : BeginR(i)
    \/ \E r \in readers : EndR(r)
    \/ BeginW
    \/ \E b \in 0..(MaxTx + 1) : Release(b)
    \/ \E p \in PageId : FreeP(p) \/ AllocP(p) \/ CommitFL(p) \/ WriteData(p)
    \/ DataDone \/ SyncData \/ WriteMeta \/ SyncMeta \/ Publish \/ Rollback
    \/ \E p \in PageId, t \in BOOLEAN : FailDataWrite(p, t)
    \/ FailSyncData \/ FailSyncMeta \/ \E t \in BOOLEAN : FailMetaWrite(t)
    \/ Kill \/ PowerLoss \/ Recover \/ Reopen
    \/ \E s \in {0, 1} : Damage(s)

Spec == Init /\ [][Next]_vars

(***************************************************************************)
(* Properties                                                              *)
(***************************************************************************)
\* C03: the pages of an open reader's snapshot are neither allocatable nor overwritten
\* (while a writer is inside, the list the next allocation is served from is its private copy;
\* the shared list is only read again by the next writer, after publication)
ReaderPinned ==
    \A r \in readers : DOMAIN r.m.pages \cap (IF w = None THEN shFree ELSE w.free) = {}
ReaderIntact == \A r \in readers : Intact(r.m, cpg)

\* C02 / C12: what the process (cache) and a crash (disk) would recover is a complete snapshot
CacheRecoverable == ChooseSlot(cmeta) >= 0 /\ Intact(Cur, cpg)
DiskRecoverable ==
    LET s == ChooseSlot(dmeta) IN s >= 0 /\ Intact(dmeta[s], dpg)
\* every image power loss can produce right now recovers to a complete snapshot,
\* and never to something older than the last acknowledged commit (durability)
AllImagesRecoverable ==
    unsure \/ \A S \in SUBSET (1..Len(unsynced)) : \A T \in SUBSET S :
        LET r == ApplyWrites(1, S, T, dpg, dmeta)
            s == ChooseSlot(r.ms)
        IN  s >= 0 /\ Intact(r.ms[s], r.pg) /\ r.ms[s].txid >= acked
AfterCrash == crashed => (CacheRecoverable /\ Cur.txid >= acked)

\* C12: at quiescent points every valid slot is a complete snapshot (the fallback is usable)
FallbackIntact ==
    (Running /\ w = None /\ quiet) =>
        \A s \in {0, 1} : Valid(cmeta[s]) => Intact(cmeta[s], cpg)

\* C05: every page below the high-water mark is exactly one of: page of the snapshot
\* (tree or free-list page), entry of the persisted free list
AccountingOf(m) == AccountingOK(DOMAIN m.pages, m.flist, m.np) /\ m.fl \in DOMAIN m.pages
Accounting == ChooseSlot(cmeta) >= 0 => AccountingOf(Cur)

\* C11 / C05: with no writer inside, the shared lists are exactly what the current header persisted
FLConsistent ==
    (Running /\ w = None /\ ChooseSlot(cmeta) >= 0) =>
        /\ shFree \cup UnionAll(shPend) = Cur.flist
        /\ \A t \in DOMAIN shPend : shPend[t] \cap shFree = {}

\* the writer never hands out or frees a page twice
WriterSane ==
    w # None => /\ w.free \cap UnionAll(w.pend) = {}
                /\ DOMAIN w.pages \cap w.free = {}

TypeOK == /\ w = None \/ w.txid > 0
          /\ acked >= 0

Constraint == TRUE
=============================================================================
