----------------------------- MODULE Gen_Readers -----------------------------
(***************************************************************************)
(* Behaviour generator for C03: every single-threaded interleaving, up to   *)
(* MaxSteps top-level steps, of                                             *)
(*    br    open a read-only transaction (at most MaxR at a time)           *)
(*    er i  close reader i (any order)                                      *)
(*    wb    a writer begins and runs an update / delete heavy chunk         *)
(*    wc    the open writer commits          wr    the open writer rolls back *)
(*          (readers may begin and end while the writer is in flight)       *)
(* After EVERY step every open reader is re-read in full (scan, counter,    *)
(* point lookups, a seek) and must still show the snapshot L0 holds for it  *)
(* (KVStore!SnapshotStable); the results are computed with KVOps!Do.        *)
(***************************************************************************)
EXTENDS KVOps, Json

CONSTANTS NKeys, NVals, MaxSteps, MaxR, Bucket

VARIABLES committed, views, hist, n, chunk, nextR, wtx

gvars == <<committed, views, hist, n, chunk, nextR, wtx>>
NoWriter == [t |-> 0]

Op(t, c, p, k, v) == [a |-> "op", t |-> t, c |-> c, p |-> p, k |-> k, v |-> v,
                      lk |-> "U", lo |-> 0, hk |-> "U", hi |-> 0]

RECURSIVE Run(_, _, _, _)
Run(tree, w, ops, acc) ==
    IF ops = <<>> THEN [tree |-> tree, steps |-> acc]
    ELSE LET o == Head(ops)
             d == Do(tree, w, o)
         IN  Run(d.tree, w, Tail(ops), Append(acc, o @@ [exp |-> d.res]))

RECURSIVE Flatten(_)
Flatten(ss) == IF ss = <<>> THEN <<>> ELSE Head(ss) \o Flatten(Tail(ss))

P == <<Bucket>>

\* the j-th writer chunk: rewrites most keys, deletes every third one (frees and reuses pages)
ChunkOps(t, j) ==
    <<Op(t, "gocb", <<>>, Bucket, 0)>>
    \o [i \in 1..NKeys |->
          IF (i + j) % 3 = 0 THEN Op(t, "del", P, i - 1, 0) ELSE Op(t, "put", P, i - 1, (i + j) % NVals)]

\* full re-read of one reader
ReadOps(t) ==
    <<Op(t, "buckets", <<>>, 0, 0), Op(t, "scan", P, 0, 0), Op(t, "nextint", P, 0, 0),
      Op(t, "seek", P, NKeys \div 2, 0), Op(t, "kvpairs", P, 0, 0)>>
    \o [i \in 1..NKeys |-> Op(t, "get", P, i - 1, 0)]

\* every open reader re-verified (reader ids are transaction ids 100 + i)
RECURSIVE ReReadSeq(_, _)
ReReadSeq(vs, ids) ==
    IF ids = <<>> THEN <<>>
    ELSE Run(vs[Head(ids)], FALSE, ReadOps(100 + Head(ids)), <<>>).steps \o ReReadSeq(vs, Tail(ids))
ReRead(vs) == ReReadSeq(vs, SetToSortSeq(DOMAIN vs, LAMBDA x, y : x < y))

GInit ==
    /\ committed = EmptyTree /\ views = <<>> /\ hist = <<>> /\ n = 0 /\ chunk = 0 /\ nextR = 1 /\ wtx = NoWriter

BeginReader ==
    /\ n < MaxSteps /\ Cardinality(DOMAIN views) < MaxR
    /\ LET vs == (nextR :> committed) @@ views IN
       /\ views' = vs
       /\ hist' = hist \o <<[a |-> "begin", t |-> 100 + nextR, w |-> FALSE]>> \o ReRead(vs)
    /\ nextR' = nextR + 1 /\ n' = n + 1
    /\ UNCHANGED <<committed, chunk, wtx>>

EndReader(i) ==
    /\ n < MaxSteps /\ i \in DOMAIN views
    /\ LET vs == [j \in DOMAIN views \ {i} |-> views[j]] IN
       /\ views' = vs
       /\ hist' = hist \o <<[a |-> "drop", t |-> 100 + i]>> \o ReRead(vs)
    /\ n' = n + 1
    /\ UNCHANGED <<committed, chunk, nextR, wtx>>

WriterBegin ==
    /\ n < MaxSteps /\ wtx = NoWriter
    /\ LET t == 200 + n
           r == Run(committed, TRUE, ChunkOps(t, chunk), <<>>)
       IN /\ wtx' = [t |-> t, tree |-> r.tree]
          /\ hist' = hist \o <<[a |-> "begin", t |-> t, w |-> TRUE]>> \o r.steps \o ReRead(views)
    /\ chunk' = chunk + 1 /\ n' = n + 1
    /\ UNCHANGED <<committed, views, nextR>>

WriterEnd(commit) ==
    /\ n < MaxSteps /\ wtx # NoWriter
    /\ committed' = IF commit THEN wtx.tree ELSE committed
    /\ hist' = hist \o <<[a |-> IF commit THEN "commit" ELSE "drop", t |-> wtx.t]>> \o ReRead(views)
    /\ wtx' = NoWriter /\ n' = n + 1
    /\ UNCHANGED <<views, chunk, nextR>>

\* a behaviour is complete when MaxSteps steps were taken: close the readers, read back
Finish ==
    /\ n = MaxSteps /\ wtx = NoWriter
    /\ PrintT(ToJson([nk |-> NKeys, nv |-> NVals,
                      steps |-> hist
                                \o [i \in 1..Len(SetToSortSeq(DOMAIN views, LAMBDA x, y : x < y)) |->
                                      [a |-> "drop", t |-> 100 + SetToSortSeq(DOMAIN views, LAMBDA x, y : x < y)[i]]]
                                \o <<[a |-> "begin", t |-> 999, w |-> FALSE]>>
                                \o Run(committed, FALSE, ReadOps(999), <<>>).steps
                                \o <<[a |-> "drop", t |-> 999]>>]))
    /\ n' = MaxSteps + 1
    /\ UNCHANGED <<committed, views, hist, chunk, nextR, wtx>>

\* a writer still open at the bound is rolled back (does not count as a step)
FinishWriter ==
    /\ n = MaxSteps /\ wtx # NoWriter
    /\ hist' = hist \o <<[a |-> "drop", t |-> wtx.t]>> \o ReRead(views)
    /\ wtx' = NoWriter
    /\ UNCHANGED <<committed, views, n, chunk, nextR>>

GNext == BeginReader \/ (\E i \in DOMAIN views : EndReader(i)) \/ WriterBegin \/ WriterEnd(TRUE) \/ WriterEnd(FALSE)
         \/ FinishWriter \/ Finish

\* a reader's view never changes: by construction views[i] is only ever set at BeginReader
GSpec == GInit /\ [][GNext]_gvars
=============================================================================
