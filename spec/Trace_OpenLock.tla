--------------------------- MODULE Trace_OpenLock ---------------------------
(***************************************************************************)
(* Trace validation for C13 (impl -> spec): the hook points announced by    *)
(* real worker processes (gated, so their global order is exact) and their  *)
(* results, against the lock discipline of OpenLock with LockFirst:         *)
(*   open:locked  only when nobody holds the lock                           *)
(*   init:*       only by the holder of the lock, on a file not initialised *)
(*   open:done    (inside the database) only by the holder                  *)
(*   result       releases; a successful opener saw every marker committed  *)
(*                before it got the lock                                    *)
(***************************************************************************)
EXTENDS Integers, Sequences, FiniteSets, TLC, Json, IOUtils

Rec == ndJsonDeserialize(IOEnv.TRACE)

VARIABLES l, holder, inited, markers, want
tvars == <<l, holder, inited, markers, want>>

TInit == l = 1 /\ holder = 0 /\ inited = FALSE /\ markers = {} /\ want = <<>>

Ev == Rec[l]
Rep(rule, detail) == PrintT(ToJson([tag |-> "L3", line |-> l, rule |-> rule, detail |-> detail]))
Check(c, rule, detail) == IF c THEN TRUE ELSE Rep(rule, detail)

Step ==
    /\ l <= Len(Rec) /\ l' = l + 1
    /\ CASE Ev.ev = "reset" ->
              holder' = 0 /\ inited' = Ev.exists /\ markers' = {} /\ want' = <<>>
         [] Ev.ev = "at" /\ Ev.h = "open:locked" ->
              /\ Check(holder = 0, "lock-granted-while-held", <<Ev.p, holder>>)
              /\ holder' = Ev.p
              /\ want' = (Ev.p :> markers) @@ want     \* what this opener must find
              /\ UNCHANGED <<inited, markers>>
         [] Ev.ev = "at" /\ Ev.h \in {"init:enter", "init:allocated", "init:synced"} ->
              /\ Check(holder = Ev.p, "init-without-the-lock", <<Ev.p, Ev.h, holder>>)
              /\ Check(~inited \/ Ev.h # "init:enter", "init-of-an-initialised-file", <<Ev.p>>)
              /\ inited' = (inited \/ Ev.h = "init:synced")
              /\ markers' = IF Ev.h = "init:allocated" /\ inited THEN {} ELSE markers
              /\ UNCHANGED <<holder, want>>
         [] Ev.ev = "at" /\ Ev.h = "open:done" ->
              /\ Check(holder = Ev.p, "inside-without-the-lock", <<Ev.p, holder>>)
              /\ UNCHANGED <<holder, inited, markers, want>>
         [] Ev.ev = "at" /\ Ev.h = "in-db" ->       \* it has committed its marker
              /\ markers' = markers \cup {Ev.p}
              /\ UNCHANGED <<holder, inited, want>>
         [] Ev.ev = "result" ->
              /\ Check(Ev.res = "ok", "opener-failed", <<Ev.p, Ev.res>>)
              /\ Check(Ev.res # "ok" \/ Ev.p \notin DOMAIN want \/ want[Ev.p] \subseteq {Ev.seen[i] : i \in 1..Len(Ev.seen)},
                       "committed-marker-not-seen", <<Ev.p, Ev.seen>>)
              /\ holder' = IF holder = Ev.p THEN 0 ELSE holder
              /\ UNCHANGED <<inited, markers, want>>
         [] OTHER -> UNCHANGED <<holder, inited, markers, want>>

TSpec == TInit /\ [][Step]_tvars
Accepted ==
    LET d == TLCGet("stats").diameter IN
    IF d - 1 = Len(Rec) THEN TRUE ELSE Print(ToJson([tag |-> "STUCK", line |-> d]), FALSE)
=============================================================================
