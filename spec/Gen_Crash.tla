------------------------------ MODULE Gen_Crash ------------------------------
(***************************************************************************)
(* Crash-point generator (C02).  It walks a RECORDED execution of the real *)
(* code (the write / sync events of the interposer, commit boundaries) and *)
(* enables PageStore's Kill and PowerLoss steps at every position of the   *)
(* recorded write sequence:                                                *)
(*   Kill      after write i: every write so far is in the image (the page *)
(*             cache survives); the last write may be cut short            *)
(*   PowerLoss after write i: the image is the last synced image plus any  *)
(*             subset S of the writes issued since the last completed sync,*)
(*             any subset T of S torn                                      *)
(* and prints one abstract recipe per choice together with the outcomes the *)
(* specification allows: the state of the last acknowledged commit, or --   *)
(* while a commit is in flight -- that or the new one.  After commit has    *)
(* returned only the new state is allowed (durability).  The harness turns  *)
(* each recipe into concrete images (sector / word tears) and reopens them  *)
(* with the real code.                                                      *)
(***************************************************************************)
EXTENDS Integers, Sequences, FiniteSets, TLC, Json, IOUtils

Rec == ndJsonDeserialize(IOEnv.TRACE)
MaxAll == 4        \* all (S, T) pairs while at most this many writes are unsynced
MaxFam == 14       \* structured families up to this many; beyond: a fixed handful

VARIABLES l, h, uns, k, inflight, started, nw
gvars == <<l, h, uns, k, inflight, started, nw>>

GInit == l = 1 /\ h = -1 /\ uns = <<>> /\ k = 0 /\ inflight = FALSE /\ started = FALSE /\ nw = 0

Ev == Rec[l]
Expect == IF inflight THEN <<k, k + 1>> ELSE <<k>>
RECURSIVE SetToSortSeq(_)
SetToSortSeq(X) ==
    IF X = {} THEN <<>>
    ELSE LET m == CHOOSE x \in X : \A y \in X : x <= y IN <<m>> \o SetToSortSeq(X \ {m})

Emit(kind, S, T, u) ==
    PrintT(ToJson([h |-> h, pos |-> u[Len(u)], base |-> u[1], kind |-> kind,
                   S |-> [i \in 1..Len(SetToSortSeq(S)) |-> u[SetToSortSeq(S)[i]]],
                   T |-> [i \in 1..Len(SetToSortSeq(T)) |-> u[SetToSortSeq(T)[i]]],
                   expect |-> Expect]))

\* recipes at the position after the newest write (index n of u); only subsets that contain
\* it -- the others were emitted at earlier positions
Recipes(u) ==
    LET n == Len(u)
        all == 1..n
        older == 1..(n - 1)
    IN /\ Emit("kill", all, {}, u)
       /\ Emit("kill", all, {n}, u)
       /\ IF n <= MaxAll
          THEN \A S0 \in SUBSET older : \A T \in SUBSET (S0 \cup {n}) : Emit("power", S0 \cup {n}, T, u)
          ELSE /\ Emit("power", {n}, {}, u) /\ Emit("power", {n}, {n}, u)
               /\ Emit("power", all, {}, u) /\ Emit("power", all, {n}, u)
               /\ IF n <= MaxFam
                  THEN /\ \A i \in older : Emit("power", all \ {i}, {}, u)
                       /\ \A i \in older : Emit("power", {i, n}, {}, u)
                       /\ \A i \in older : Emit("power", all, {i}, u)
                  ELSE /\ Emit("power", all \ {1}, {}, u) /\ Emit("power", {1, n}, {}, u)
                       /\ Emit("power", all \ {n - 1}, {}, u) /\ Emit("power", all, {n - 1}, u)

Step ==
    /\ l <= Len(Rec) /\ l' = l + 1
    /\ CASE Ev.ev = "reset" ->
              h' = Ev.h /\ uns' = <<>> /\ k' = 0 /\ inflight' = FALSE /\ started' = FALSE /\ nw' = 0
         [] Ev.ev = "opened" -> started' = TRUE /\ UNCHANGED <<h, uns, k, inflight, nw>>
         [] Ev.ev = "closing" -> started' = FALSE /\ UNCHANGED <<h, uns, k, inflight, nw>>
         [] Ev.ev = "reopen" -> started' = TRUE /\ UNCHANGED <<h, uns, k, inflight, nw>>
         [] Ev.ev = "write" ->
              LET u == Append(uns, Ev.wi) IN
              /\ uns' = u /\ nw' = Ev.wi + 1
              /\ IF started THEN Recipes(u) ELSE TRUE
              /\ UNCHANGED <<h, k, inflight, started>>
         [] Ev.ev = "sync" ->
              /\ uns' = <<>>
              /\ IF started /\ uns # <<>>
                 THEN PrintT(ToJson([h |-> h, pos |-> uns[Len(uns)], base |-> uns[1], kind |-> "power", S |-> uns,
                                     T |-> <<>>, expect |-> Expect]))
                 ELSE TRUE
              /\ UNCHANGED <<h, k, inflight, started, nw>>
         [] Ev.ev = "commit:enter" -> inflight' = TRUE /\ UNCHANGED <<h, uns, k, started, nw>>
         [] Ev.ev = "commit" ->
              IF Ev.res = <<"ok">>
              THEN /\ k' = k + 1 /\ inflight' = FALSE
                   \* durability: whatever is still unsynced may be lost, the new state must survive
                   /\ PrintT(ToJson([h |-> h, pos |-> nw - 1, base |-> IF uns = <<>> THEN nw ELSE uns[1],
                                     after |-> k + 1, kind |-> "durable", S |-> <<>>, T |-> <<>>,
                                     expect |-> <<k + 1>>]))
                   /\ UNCHANGED <<h, uns, started, nw>>
              ELSE inflight' = FALSE /\ UNCHANGED <<h, uns, k, started, nw>>
         [] OTHER -> UNCHANGED <<h, uns, k, inflight, started, nw>>

GSpec == GInit /\ [][Step]_gvars
=============================================================================
