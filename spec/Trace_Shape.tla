----------------------------- MODULE Trace_Shape -----------------------------
(***************************************************************************)
(* Page structures decoded from real files (jvh btree-run: the tree of one  *)
(* bucket as the independent parser sees it) that differ from the structure *)
(* BTree.tla computed for the same history.  A different structure is not a *)
(* defect by itself; it must still be a search tree (C05).  Each input line *)
(* is {"i": n, "shape": S, "list": [[k, v] ...]} with                        *)
(*    S = {"l": [keys]}  |  {"b": [{"k": key, "c": S} ...]}                  *)
(* One output line per structure that is not well formed.                   *)
(***************************************************************************)
EXTENDS Integers, Sequences, FiniteSets, TLC, Json, IOUtils

Shapes == ndJsonDeserialize(IOEnv.SHAPES)

IsLeaf(sh) == "l" \in DOMAIN sh
IsBranch(sh) == "b" \in DOMAIN sh
IsSorted(q) == \A i \in 1..Len(q) - 1 : q[i] < q[i + 1]

RECURSIVE KeysOf(_, _)
KeysOf(sh, fuel) ==
    IF fuel = 0 THEN <<>>
    ELSE IF IsLeaf(sh) THEN sh.l
    ELSE IF IsBranch(sh)
    THEN LET F[i \in 0..Len(sh.b)] == IF i = 0 THEN <<>> ELSE F[i - 1] \o KeysOf(sh.b[i].c, fuel - 1)
         IN  F[Len(sh.b)]
    ELSE <<>>

RECURSIVE Why(_, _)
\* "" if the structure satisfies C05's predicates (the ones Trace_Page!WalkA applies to decoded pages: keys strictly
\* ascending within a page, separators bound their subtrees, no branch without entries), else the first reason
Why(sh, fuel) ==
    IF fuel = 0 THEN "deeper than any tree of this size"
    ELSE IF IsLeaf(sh)
    THEN IF ~IsSorted(sh.l) THEN "leaf keys not strictly ascending" ELSE ""
    ELSE IF ~IsBranch(sh) THEN "reference to a page that is not part of the tree"
    ELSE IF Len(sh.b) = 0 THEN "branch page without entries"
    ELSE LET n == Len(sh.b)
             sub(i) == KeysOf(sh.b[i].c, fuel - 1)
             inner == {Why(sh.b[i].c, fuel - 1) : i \in 1..n} \ {""}
         IN  IF inner # {} THEN CHOOSE w \in inner : TRUE
             ELSE IF \E i \in 1..n - 1 : sh.b[i].k >= sh.b[i + 1].k THEN "branch keys not strictly ascending"
             ELSE IF \E i \in 1..n : sub(i) # <<>> /\ sh.b[i].k > sub(i)[1] THEN "separator above its subtree"
             ELSE IF \E i \in 1..n - 1 : sub(i) # <<>> /\ sub(i)[Len(sub(i))] >= sh.b[i + 1].k
                  THEN "subtree reaches the next separator"
             ELSE ""

Judge(rec) ==
    LET w == Why(rec.shape, 40)
        ks == KeysOf(rec.shape, 40)
        want == [i \in 1..Len(rec.list) |-> rec.list[i][1]]
    IN  IF w # "" THEN w
        ELSE IF ks # want THEN "keys in the tree differ from the reference map"
        ELSE ""

VARIABLE l
Init == l = 1
Next == /\ l <= Len(Shapes)
        /\ LET w == Judge(Shapes[l])
           IN  w # "" => PrintT(ToJson([i |-> Shapes[l].i, why |-> w]))
        /\ l' = l + 1
Spec == Init /\ [][Next]_l
Done == TLCGet("stats").diameter = Len(Shapes) + 1
=============================================================================
