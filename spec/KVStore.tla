------------------------------ MODULE KVStore ------------------------------
(***************************************************************************)
(* L0 -- the transactional state machine over the reference semantics of   *)
(* KVOps (see there).                                                      *)
(***************************************************************************)
EXTENDS KVOps

(***************************************************************************)
(* The transactional state machine.                                        *)
(***************************************************************************)
VARIABLES committed,   \* Tree: the last committed state
          txs,         \* open transactions: id -> [w, view]
          isOpen       \* database handle open?

kvvars == <<committed, txs, isOpen>>

KVInit == committed = EmptyTree /\ txs = <<>> /\ isOpen = TRUE

Writers == {t \in DOMAIN txs : txs[t].w}

Begin(t, w) ==
    /\ isOpen /\ t \notin DOMAIN txs
    /\ w => Writers = {}             \* a second writer would block (C09)
    /\ txs' = (t :> [w |-> w, view |-> committed]) @@ txs
    /\ UNCHANGED <<committed, isOpen>>

\* res is the observed result; it must be one the specification allows
Call(t, o, res) ==
    /\ t \in DOMAIN txs
    /\ LET d == Do(txs[t].view, txs[t].w, o) IN
       /\ res \in d.res
       /\ txs' = [txs EXCEPT ![t].view = d.tree]
    /\ UNCHANGED <<committed, isOpen>>

RemoveTx(t) == [u \in DOMAIN txs \ {t} |-> txs[u]]

CommitOk(t) ==          \* writable commit succeeded
    /\ t \in DOMAIN txs /\ txs[t].w
    /\ committed' = txs[t].view
    /\ txs' = RemoveTx(t)
    /\ UNCHANGED isOpen

CommitRO(t) ==          \* commit on a read-only tx: ReadOnlyTx, tx consumed
    /\ t \in DOMAIN txs /\ ~txs[t].w
    /\ txs' = RemoveTx(t)
    /\ UNCHANGED <<committed, isOpen>>

Drop(t) ==
    /\ t \in DOMAIN txs
    /\ txs' = RemoveTx(t)
    /\ UNCHANGED <<committed, isOpen>>

Close ==
    /\ isOpen /\ DOMAIN txs = {}
    /\ isOpen' = FALSE /\ UNCHANGED <<committed, txs>>

Open ==                \* reopen continuity: the committed state is what reopens
    /\ ~isOpen
    /\ isOpen' = TRUE /\ UNCHANGED <<committed, txs>>

(***************************************************************************)
(* Properties stated on this layer.                                        *)
(***************************************************************************)
KVTypeOK ==
    /\ TreeOK(committed)
    /\ \A t \in DOMAIN txs : TreeOK(txs[t].view)
    /\ Cardinality(Writers) <= 1

\* C03 at the logical level: the view of a read-only transaction never changes
SnapshotStable ==
    [][\A t \in DOMAIN txs \cap DOMAIN txs' : ~txs[t].w => txs'[t].view = txs[t].view]_kvvars

\* C06: only a successful writable commit changes the committed state
OnlyCommitChanges ==
    [][committed' # committed =>
         \E t \in DOMAIN txs : txs[t].w /\ t \notin DOMAIN txs' /\ committed' = txs[t].view]_kvvars

Sorted(lst) == \A i \in 1..(Len(lst) - 1) : lst[i][1] < lst[i + 1][1]
=============================================================================
