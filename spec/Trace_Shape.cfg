SPECIFICATION Spec
POSTCONDITION Done
CHECK_DEADLOCK FALSE
