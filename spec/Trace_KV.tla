------------------------------ MODULE Trace_KV ------------------------------
(***************************************************************************)
(* Trace validation of recorded executions of the real code against L0.    *)
(* One event per public call with its arguments and its projected result;  *)
(* the event is accepted iff the result is one KVStore!Do allows in the    *)
(* state reconstructed so far.  Several histories are concatenated with    *)
(* "reset" events.                                                         *)
(*                                                                         *)
(* A result the specification does not allow is REPORTED (one JSON line)   *)
(* and the monitor goes on with the specification's own successor state,   *)
(* so that the rest of the trace is still checked.  If the deviating call  *)
(* was a mutator (or panicked) the implementation's state is unknown from  *)
(* there on and the rest of that history is skipped ("taint").  An event   *)
(* that matches no action at all stops the monitor: that is a conformance  *)
(* failure of the tooling, not a violation.                                *)
(***************************************************************************)
EXTENDS KVStore, Json, IOUtils

Rec == ndJsonDeserialize(IOEnv.TRACE)

VARIABLES l, taint
tvars == <<committed, txs, isOpen, l, taint>>

OK == <<"ok">>

TInit == KVInit /\ l = 1 /\ taint = FALSE

IsEv(e) == l <= Len(Rec) /\ Rec[l].ev = e /\ l' = l + 1

Report(what, exp) ==
    PrintT(ToJson([tag |-> "MISMATCH", line |-> l, what |-> what, exp |-> exp]))

Skip == UNCHANGED <<kvvars, taint>>

THdr == IsEv("hdr") /\ Skip

TReset ==
    /\ IsEv("reset")
    /\ committed' = EmptyTree /\ txs' = <<>> /\ isOpen' = TRUE /\ taint' = FALSE

TOpened ==
    /\ IsEv("opened")
    /\ UNCHANGED kvvars
    /\ IF Rec[l].res = OK THEN UNCHANGED taint
       ELSE Report("open", {OK}) /\ taint' = TRUE

\* a history that starts on an existing file (C15: golden files of the pinned release): the
\* committed state is the recorded logical content of that file
TLoad ==
    /\ IsEv("load")
    /\ LET D == Rec[l].dump
           ents == {D[i] : i \in 1..Len(D)}
       IN committed' = [p \in {<<>>} \cup {e[1] : e \in ents} |->
                          IF p = <<>> THEN RootEntry
                          ELSE LET e == CHOOSE x \in ents : x[1] = p IN [k |-> e[2], x |-> e[3]]]
    /\ UNCHANGED <<txs, isOpen, taint>>

\* events of other layers (hook points, I/O) recorded in the same stream: stutter
KVEvents == {"hdr", "reset", "load", "opened", "begin", "op", "commit", "drop", "reopen", "check"}
TOther == l <= Len(Rec) /\ Rec[l].ev \notin KVEvents /\ l' = l + 1 /\ Skip

TBegin ==
    /\ IsEv("begin")
    /\ IF taint THEN Skip
       ELSE IF Rec[l].res = OK THEN Begin(Rec[l].t, Rec[l].w) /\ UNCHANGED taint
       ELSE Report("begin", {OK}) /\ taint' = TRUE /\ UNCHANGED kvvars

TOp ==
    /\ IsEv("op")
    /\ LET e == Rec[l] IN
       IF taint THEN Skip
       ELSE /\ e.t \in DOMAIN txs
            /\ LET d == Do(txs[e.t].view, txs[e.t].w, e) IN
               /\ txs' = [txs EXCEPT ![e.t].view = d.tree]
               /\ UNCHANGED <<committed, isOpen>>
               /\ IF e.res \in d.res THEN UNCHANGED taint
                  ELSE /\ Report("op", d.res)
                       /\ taint' = (d.tree # txs[e.t].view \/ e.res[1] = "panic"
                                    \/ e.c \in Mutators)

TCommit ==
    /\ IsEv("commit")
    /\ LET e == Rec[l] IN
       IF taint THEN Skip
       ELSE /\ e.t \in DOMAIN txs
            /\ IF txs[e.t].w
               THEN /\ CommitOk(e.t)
                    /\ IF e.res = OK THEN UNCHANGED taint
                       ELSE Report("commit", {OK}) /\ taint' = TRUE
               ELSE /\ CommitRO(e.t)
                    /\ IF e.res = <<"err", "ReadOnlyTx">> THEN UNCHANGED taint
                       ELSE Report("commit", {<<"err", "ReadOnlyTx">>}) /\ taint' = TRUE

TDrop ==
    /\ IsEv("drop")
    /\ IF taint THEN Skip
       ELSE /\ Drop(Rec[l].t)
            /\ IF Rec[l].res = OK THEN UNCHANGED taint
               ELSE Report("drop", {OK}) /\ taint' = TRUE

\* close + open: the committed state is carried over unchanged (C01, C15)
TReopen ==
    /\ IsEv("reopen")
    /\ IF taint THEN Skip
       ELSE /\ DOMAIN txs = {}
            /\ UNCHANGED kvvars
            /\ IF Rec[l].res = OK THEN UNCHANGED taint
               ELSE Report("reopen", {OK}) /\ taint' = TRUE

\* DB::check() after a commit the specification accepts must agree (C05)
TCheck ==
    /\ IsEv("check")
    /\ IF taint \/ Rec[l].res = OK THEN Skip
       ELSE Report("check", {OK}) /\ Skip

TNext == THdr \/ TReset \/ TLoad \/ TOpened \/ TOther \/ TBegin \/ TOp \/ TCommit \/ TDrop \/ TReopen \/ TCheck

TSpec == TInit /\ [][TNext]_tvars

\* every invariant of L0 is evaluated in every state of the matched behaviour
TInv == KVTypeOK

\* the action properties of L0, on every step of the matched behaviour that is not the
\* start of a new history
NotReset == l <= Len(Rec) /\ Rec[l].ev \notin {"reset", "load"}
TSnapshotStable ==
    [][NotReset => \A t \in DOMAIN txs \cap DOMAIN txs' :
                      ~txs[t].w => txs'[t].view = txs[t].view]_tvars
TOnlyCommitChanges ==
    [][(NotReset /\ committed' # committed) =>
         \E t \in DOMAIN txs : txs[t].w /\ t \notin DOMAIN txs' /\ committed' = txs[t].view]_tvars

Accepted ==
    LET d == TLCGet("stats").diameter IN
    IF d - 1 = Len(Rec) THEN TRUE
    ELSE Print(ToJson([tag |-> "STUCK", line |-> d]), FALSE)
=============================================================================
