SPECIFICATION TSpec
INVARIANT TInv
PROPERTY TSnapshotStable
PROPERTY TOnlyCommitChanges
POSTCONDITION Accepted
CHECK_DEADLOCK FALSE
