---------------------------- MODULE Trace_Threads ----------------------------
(***************************************************************************)
(* Trace validation for C04 / C09 (impl -> spec) of multi-threaded runs     *)
(* under seeded random schedules.  Only hook points whose order is exact    *)
(* are used: those inside the registry critical section (tx:registered,     *)
(* fl:release / tx:released, drop:deregistered), those inside the writer    *)
(* lock (tx:locked w=1 ... drop:done w=1, commit:meta_written, commit:done).*)
(* Rules (the formulas of PageRules / Threads):                             *)
(*   release bound  <= every registered reader's snapshot + 1, and <= own id*)
(*   a reader registers a snapshot at least as new as every commit that has *)
(*   completed (commit:done)                                                *)
(*   writer sections do not overlap; commit ids increase by exactly one     *)
(***************************************************************************)
EXTENDS PageRules, Json, IOUtils

Rec == ndJsonDeserialize(IOEnv.TRACE)

VARIABLES l, reg, writer, lastCommit, maxDone, wtx,
          who,              \* threads holding a registration: <<thread, snapshot>> (ground truth for the registry)
          before, left      \* release(): the pending entries (transaction ids) the code lists before / after its loop
tvars == <<l, reg, writer, lastCommit, maxDone, wtx, before, left, who>>

TInit == l = 1 /\ reg = <<>> /\ writer = 0 /\ lastCommit = -1 /\ maxDone = 0 /\ wtx = -1 /\ before = {} /\ left = {} /\ who = {}

Ev == Rec[l]
Rep(rule, detail) == PrintT(ToJson([tag |-> "L2", line |-> l, rule |-> rule, detail |-> detail]))
Check(c, rule, detail) == IF c THEN TRUE ELSE Rep(rule, detail)
Snaps == {reg[i] : i \in 1..Len(reg)}
RemoveOne(seq, x) ==
    LET idx == {i \in 1..Len(seq) : seq[i] = x} IN
    IF idx = {} THEN seq
    ELSE LET k == MinOf(idx) IN SubSeq(seq, 1, k - 1) \o SubSeq(seq, k + 1, Len(seq))

Step ==
    /\ l <= Len(Rec) /\ l' = l + 1
    /\ IF Ev.ev = "fl:release" THEN before' = {} /\ left' = {}
       ELSE IF Ev.ev = "fl:pending" THEN before' = before \cup {Ev.tx} /\ left' = left
       ELSE IF Ev.ev = "fl:pending_left" THEN left' = left \cup {Ev.tx} /\ before' = before
       ELSE UNCHANGED <<before, left>>
    /\ IF Ev.ev = "reset" THEN who' = {}
       ELSE IF Ev.ev = "tx:registered" THEN who' = who \cup {<<Ev.tid, Ev.tx_id>>}
       ELSE IF Ev.ev = "drop:deregistered" THEN who' = who \ {<<Ev.tid, Ev.tx_id>>}
       ELSE IF Ev.ev = "drop:done" /\ Ev.w = 0 THEN who' = {r \in who : r[1] # Ev.tid}
       ELSE UNCHANGED who
    /\ CASE Ev.ev = "reset" ->
              reg' = <<>> /\ writer' = 0 /\ lastCommit' = Ev.txid /\ maxDone' = Ev.txid /\ wtx' = -1
         [] Ev.ev = "tx:locked" /\ Ev.w = 1 ->
              /\ Check(writer = 0, "two-writers-inside", <<Ev.tid, writer>>)
              /\ writer' = Ev.tid /\ UNCHANGED <<reg, lastCommit, maxDone, wtx>>
         [] Ev.ev = "tx:meta_read" /\ Ev.w = 1 ->
              /\ Check(Ev.tx_id = lastCommit, "writer-started-from-a-stale-header", <<Ev.tid, Ev.tx_id, lastCommit>>)
              /\ wtx' = Ev.tx_id + 1 /\ UNCHANGED <<reg, writer, lastCommit, maxDone>>
         [] Ev.ev = "fl:release" ->
              /\ Check(ReleaseBoundOK(Ev.bound, wtx, Snaps), "release-bound", <<Ev.bound, wtx, reg>>)
              /\ Check(Ev.bound >= MinOf(Snaps \cup {wtx}), "must-release", <<Ev.bound, wtx, reg>>)
              /\ UNCHANGED <<reg, writer, lastCommit, maxDone, wtx>>
         [] Ev.ev = "fl:released" ->
              \* what release() really did (inside the registry critical section, so reg is exact)
              /\ Check(\A t \in before \ left : t <= MinOf(Snaps \cup {wtx - 1} \cup {r[2] : r \in who}), "reader-page-released",
                       <<before \ left, wtx, reg, who>>)
              /\ Check(\A t \in left : t >= MinOf(Snaps \cup {wtx}), "must-release", <<left, wtx, reg>>)
              /\ UNCHANGED <<reg, writer, lastCommit, maxDone, wtx>>
         [] Ev.ev = "tx:registered" ->
              /\ Check(Ev.tx_id >= maxDone, "reader-snapshot-older-than-a-completed-commit", <<Ev.tid, Ev.tx_id, maxDone>>)
              /\ reg' = Append(reg, Ev.tx_id) /\ UNCHANGED <<writer, lastCommit, maxDone, wtx>>
         [] Ev.ev = "drop:deregistered" ->
              /\ Check(Ev.tx_id \in Snaps, "deregistered-unknown-reader", <<Ev.tid, Ev.tx_id, reg>>)
              \* only the thread that registered an entry may take it out again (a writer's drop must not)
              /\ Check(<<Ev.tid, Ev.tx_id>> \in who, "deregistered-by-a-thread-without-registration", <<Ev.tid, Ev.tx_id, who>>)
              /\ reg' = RemoveOne(reg, Ev.tx_id) /\ UNCHANGED <<writer, lastCommit, maxDone, wtx>>
         [] Ev.ev = "commit:meta_written" ->
              /\ Check(Ev.tx_id = lastCommit + 1, "commit-id-not-previous-plus-one", <<Ev.tx_id, lastCommit>>)
              /\ lastCommit' = Ev.tx_id /\ UNCHANGED <<reg, writer, maxDone, wtx>>
         [] Ev.ev = "commit:done" ->
              maxDone' = Ev.tx_id /\ UNCHANGED <<reg, writer, lastCommit, wtx>>
         [] Ev.ev = "drop:done" /\ Ev.w = 0 ->
              \* a read-only transaction that is gone must not be left in the registry (its pages would never be reused)
              /\ Check(\A r \in who : r[1] # Ev.tid, "reader-gone-but-still-registered", <<Ev.tid, who>>)
              /\ UNCHANGED <<reg, writer, lastCommit, maxDone, wtx>>
         [] Ev.ev = "drop:done" /\ Ev.w = 1 ->
              /\ writer' = IF writer = Ev.tid THEN 0 ELSE writer
              /\ UNCHANGED <<reg, lastCommit, maxDone, wtx>>
         [] OTHER -> UNCHANGED <<reg, writer, lastCommit, maxDone, wtx>>

TSpec == TInit /\ [][Step]_tvars
Accepted ==
    LET d == TLCGet("stats").diameter IN
    IF d - 1 = Len(Rec) THEN TRUE ELSE Print(ToJson([tag |-> "STUCK", line |-> d]), FALSE)
=============================================================================
