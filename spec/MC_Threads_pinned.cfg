SPECIFICATION Spec
CONSTANTS
  Readers = {1, 2}
  Writers = {11, 12}
  Commits <- c_Commits
  Reads = 2
  Grows = {2}
  RegisterAtomically = FALSE
  MaxPage = 8
INVARIANT TypeOK
INVARIANT ReaderSafe
INVARIANT ReadsStable
INVARIANT Freshness
INVARIANT OneWriter
INVARIANT NoLostUpdate
INVARIANT FinalCount
INVARIANT ReaderNotBlockedByWriter
