//! Generates the golden files of C15 with the PINNED jammdb (built from commit f5c2214).
//! usage: goldengen <outdir>
//! For every page size: <outdir>/golden-<ps>.db and golden-<ps>.json (the logical content as
//! [[path, "v", value id] | [path, "b", counter]] with the key / value tables of the harness
//! profile "overflow", 16 keys, 6 values).
use jammdb::{Bucket, Data, OpenOptions};
use serde_json::{json, Value};

fn padded(prefix: String, len: usize, fill: u8) -> Vec<u8> {
    let mut v = prefix.into_bytes();
    while v.len() < len {
        v.push(fill);
    }
    v
}
fn key(i: usize) -> Vec<u8> {
    format!("k{:04}", i).into_bytes()
}
fn val(v: usize) -> Vec<u8> {
    let sizes = [10usize, 3000, 1500, 9000, 100, 5000];
    padded(format!("v{}:", v), sizes[v % sizes.len()], b'a' + (v % 26) as u8)
}
fn kid(b: &[u8]) -> i64 {
    (0..16).find(|i| key(*i) == b).map(|i| i as i64).unwrap_or(-1)
}
fn vid(b: &[u8]) -> i64 {
    (0..6).find(|i| val(*i) == b).map(|i| i as i64).unwrap_or(-1)
}
fn dump_bucket(b: &Bucket, path: Vec<i64>, out: &mut Vec<Value>) {
    out.push(json!([path, "b", b.next_int()]));
    let mut subs: Vec<Vec<u8>> = Vec::new();
    for d in b.cursor() {
        match &d {
            Data::KeyValue(kv) => {
                let mut p = path.clone();
                p.push(kid(kv.key()));
                out.push(json!([p, "v", vid(kv.value())]));
            }
            Data::Bucket(n) => subs.push(n.name().to_vec()),
        }
    }
    for n in subs {
        let nb = b.get_bucket(n.clone()).unwrap();
        let mut p = path.clone();
        p.push(kid(&n));
        dump_bucket(&nb, p, out);
    }
}

fn main() {
    let outdir = std::env::args().nth(1).expect("outdir");
    // "grown": the same transactions on a file created with 4 pages, so that the first commit extends it
    // by the 8 MiB step (the length is then not a multiple of a page size that does not divide 8 MiB)
    let variant = std::env::args().nth(2).unwrap_or_default();
    let grown = variant == "grown";
    // "bigfree": the same transactions followed by a bucket of forty 9000-byte values that is created and deleted
    // again, so that the committed free list needs more than one page (1 KiB and 4 KiB pages)
    let bigfree = variant == "bigfree";
    for ps in [1024u64, 4096, 5000, 16384] {
        if bigfree && ps > 4096 {
            continue;
        }
        let path = if grown { format!("{}/golden-{}-grown.db", outdir, ps) } else if bigfree { format!("{}/golden-{}-bigfree.db", outdir, ps) } else { format!("{}/golden-{}.db", outdir, ps) };
        let _ = std::fs::remove_file(&path);
        let db = OpenOptions::new().pagesize(ps).num_pages(if grown { 4 } else { 96 }).open(&path).unwrap();
        // tx 1: a bucket with pairs of all sizes, nested buckets two levels deep
        {
            let tx = db.tx(true).unwrap();
            let b = tx.create_bucket(key(0)).unwrap();
            for k in 0..14 {
                b.put(key(k), val(k % 6)).unwrap();
            }
            let n = b.create_bucket(key(14)).unwrap();
            for k in 0..8 {
                n.put(key(k), val((k + 2) % 6)).unwrap();
            }
            let nn = n.create_bucket(key(9)).unwrap();
            nn.put(key(1), val(3)).unwrap();
            nn.put(key(2), val(0)).unwrap();
            let other = tx.create_bucket(key(3)).unwrap();
            other.put(key(7), val(4)).unwrap();
            tx.commit().unwrap();
        }
        // tx 2, 3: overwrites and deletions so that the free list is not empty
        {
            let tx = db.tx(true).unwrap();
            let b = tx.get_bucket(key(0)).unwrap();
            for k in 0..14 {
                if k % 3 == 0 {
                    b.delete(key(k)).unwrap();
                } else if k % 3 == 1 {
                    b.put(key(k), val((k + 1) % 6)).unwrap();
                }
            }
            tx.commit().unwrap();
        }
        {
            let tx = db.tx(true).unwrap();
            let b = tx.get_bucket(key(0)).unwrap();
            let n = b.get_bucket(key(14)).unwrap();
            n.delete(key(0)).unwrap();
            n.put(key(11), val(5)).unwrap();
            tx.delete_bucket(key(3)).unwrap();
            tx.commit().unwrap();
        }
        if bigfree {
            let n = if ps == 1024 { 40 } else { 260 };
            {
                let tx = db.tx(true).unwrap();
                let b = tx.create_bucket(key(5)).unwrap();
                for k in 0..n {
                    b.put(format!("big{:04}", k).into_bytes(), val(3)).unwrap();
                }
                tx.commit().unwrap();
            }
            {
                let tx = db.tx(true).unwrap();
                tx.delete_bucket(key(5)).unwrap();
                tx.commit().unwrap();
            }
        }
        let mut out: Vec<Value> = Vec::new();
        {
            let tx = db.tx(false).unwrap();
            let mut names: Vec<Vec<u8>> = tx.buckets().map(|(n, _)| n.name().to_vec()).collect();
            names.sort();
            for n in names {
                let b = tx.get_bucket(n.clone()).unwrap();
                dump_bucket(&b, vec![kid(&n)], &mut out);
            }
        }
        drop(db);
        std::fs::write(format!("{}/golden-{}{}.json", outdir, ps, if grown { "-grown" } else if bigfree { "-bigfree" } else { "" }),
                       serde_json::to_string(&json!({"pagesize": ps, "profile": "overflow", "nkeys": 16, "nvals": 6,
                                                     "dump": out})).unwrap()).unwrap();
        println!("wrote {} ({} entries)", path, out.len());
    }
}
